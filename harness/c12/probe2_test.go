package c12

import (
	"encoding/json"
	"fmt"
	"os"
	"strconv"
	"testing"

	"verifharness/pt"
	"verifharness/sut"
)

func TestProbe2(t *testing.T) {
	if os.Getenv("C12_PROBE2") == "" {
		t.Skip()
	}
	n, _ := strconv.Atoi(os.Getenv("C12_PROBE2"))
	services := []string{"front", "cart", "db"}
	sec := int64(1e9)
	var spans []*Span
	for i := 0; i < n; i++ {
		tr := fmt.Sprintf("abcdef%026x", i)
		s := &Span{Vid: i, Trace: tr, ID: fmt.Sprintf("%016x", 0xabc0000+i), Svc: i % 3, Name: "op", Status: i % 3, StartOff: -600*sec + int64(i), Dur: sec}
		spans = append(spans, s)
	}
	err := pt.WithWorker(sut.Options{}, func(c *sut.Client) error {
		var now int64
		_ = c.Call(&sut.Req{Op: "c12now"}, &now)
		body, _ := buildExport(services, spans, now*1e6)
		var hr sut.HTTPResult
		_ = c.Call(&sut.Req{Op: "c12ingest", Body: body}, &hr)
		_ = c.Flush()
		if os.Getenv("C12_ROT") != "" {
			_ = c.Rotate()
		}
		for rep := 0; rep < 3; rep++ {
			for p := 1; p <= (n+49)/50; p++ {
				b, _ := json.Marshal(map[string]interface{}{"searchText": "service=* name=*", "startEpoch": fmt.Sprint(now - 3600000), "endEpoch": fmt.Sprint(now + 60000), "page": p})
				var r sut.HTTPResult
				if err := c.Call(&sut.Req{Op: "c12http", Name: "searchTraces", Body: b}, &r); err != nil {
					return err
				}
				var res struct {
					Traces []*listedTrace `json:"traces"`
				}
				_ = decodeJSON(r.Body, &res)
				ids := ""
				for _, t := range res.Traces {
					ids += t.TraceID[28:] + " "
				}
				fmt.Printf("rep %d page %d: status %d n=%d: %s\n", rep, p, r.Status, len(res.Traces), ids)
			}
		}
		sr, _ := c.Search(sut.Query{Index: "traces", Text: "service=* name=* | stats count(*) BY trace_id", Start: uint64(now - 3600000), End: uint64(now + 60000)})
		fmt.Printf("groupby: buckets=%d n=%d err=%v\n", sr.BucketCount, len(sr.Measure), sr.Err)
		return nil
	})
	fmt.Println(err)
}
