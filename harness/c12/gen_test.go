package c12

import (
	"fmt"
	"strings"

	"pgregory.net/rapid"

	"verifharness/pt"
)

// Case is one generated span forest plus the way it is ingested and the window it is viewed in.
// Everything is relative: span times are offsets from the worker's clock reading taken just
// before ingestion, the window is [now−WindowBackMs, now+WindowFwdMs].
type Case struct {
	Kind         string   `json:"kind"` // generator class (label only; the check recomputes what matters)
	Services     []string `json:"services"`
	Nameless     *int     `json:"nameless,omitempty"` // index of the service whose resources carry no service.name (its name is ""); nil: none
	Spans        []*Span  `json:"spans"`              // in ingestion order
	Batches      []int    `json:"batches"`            // sizes of the OTLP export requests (sum = len(Spans))
	FlushAfter   []bool   `json:"flushAfter"`         // flush after batch i (the last batch is always flushed)
	Rotate       bool     `json:"rotate"`             // rotate the segment after the last flush
	WindowBackMs int64    `json:"windowBackMs"`
	WindowFwdMs  int64    `json:"windowFwdMs"`
	GanttMax     int      `json:"ganttMax"`  // number of traces whose span tree is requested
	DepRounds    int      `json:"depRounds"` // how many times the dependency graph is computed and stored
	Injected     []string `json:"injected"`  // malformations injected by the generator (labels)
}

const (
	nsPerMs  = int64(1e6)
	nsPerSec = int64(1e9)
	marginNs = 30 * nsPerSec
)

var plainServices = []string{"frontend", "cartservice", "checkout-service", "payment_svc", "db", "adservice", "shipping", "email"}
var dottedServices = []string{"cart.svc", "checkout.api", "io.acme.orders", "db.primary"}
var oddServices = []string{"Frontend", "svc 2", "42", "über-svc", "a/b", "cart:v2"}

var opNames = []string{"GET /", "GET /api/cart", "POST /checkout", "oteldemo.CartService/AddItem", "SELECT", "redis.get",
	"HTTP GET", "charge", "send_email", "grpc.health.v1.Health/Check", "publish orders", "render"}
var oddOpNames = []string{"200", "true", "select * from t where a=\"b\"", "naïve/ünicode", "a,b", "x|y", "  padded  "}

type genState struct {
	t       *rapid.T
	usedIDs map[string]bool
	usedTr  map[string]bool
	vid     int
	numIDs  bool // this case draws numeric-looking ids now and then
	oddName bool
}

func mix64(x uint64) uint64 {
	x *= 0x9E3779B97F4A7C15
	x ^= x >> 32
	x *= 0xD6E8FEB86659FD93
	x ^= x >> 32
	return x
}

// uniform draws a number in [0,n) with (nearly) equal probabilities. rapid's integer generators
// favour small magnitudes and the bounds (IntRange(0,99) lands below 10 four times out of ten, and
// during the first tests of a run nearly always), which would distort the class frequencies
// below; the drawn word is therefore mixed first. mix(0) = 0, so shrinking still moves towards
// class 0 (always the plainest one).
func uniform(t *rapid.T, label string, n int) int {
	return int(mix64(rapid.Uint64().Draw(t, label)) % uint64(n))
}

// uniformCase is uniform for the once-per-case decisions: three words are combined so that the
// large probability of a single drawn word being 0 or tiny does not pile up on one class.
func uniformCase(t *rapid.T, label string, n int) int {
	a := rapid.Uint64().Draw(t, label+"A")
	b := rapid.Uint64().Draw(t, label+"B")
	c := rapid.Uint64().Draw(t, label+"C")
	return int(mix64(mix64(a)+mix64(b+1)*3+mix64(c+2)*5-mix64(1)*3-mix64(2)*5) % uint64(n))
}

func gcd(a, b int) int {
	for b != 0 {
		a, b = b, a%b
	}
	return a
}

func hex16(v uint64) string { return fmt.Sprintf("%016x", v) }

func (g *genState) spanID() string {
	for i := 0; ; i++ {
		var id string
		if g.numIDs && rapid.IntRange(0, 3).Draw(g.t, "numericSpanId") == 0 {
			// ids that read as decimal numbers (1 in ~1 800 random 64-bit ids has no a–f digit)
			d := rapid.Uint64Range(0, 9999999999999999).Draw(g.t, "spanIdDigits")
			id = fmt.Sprintf("%016d", d)
			if rapid.IntRange(0, 3).Draw(g.t, "spanIdExp") == 0 {
				pos := rapid.IntRange(1, 14).Draw(g.t, "expPos")
				id = id[:pos] + "e" + id[pos+1:]
			}
		} else {
			// the top nibble is forced to a letter so that shrinking cannot turn an ordinary id
			// into a numeric-looking one (that class is drawn explicitly above)
			id = hex16(rapid.Uint64().Draw(g.t, "spanId") | 0xa<<60)
		}
		if id == "0000000000000000" { // the all-zero id is invalid in OTLP
			continue
		}
		if !g.usedIDs[id] {
			g.usedIDs[id] = true
			return id
		}
	}
}

func (g *genState) traceID() string {
	for {
		var id string
		if g.numIDs && rapid.IntRange(0, 4).Draw(g.t, "numericTraceId") == 0 {
			a := rapid.Uint64Range(0, 9999999999999999).Draw(g.t, "traceIdDigitsA")
			b := rapid.Uint64Range(0, 9999999999999999).Draw(g.t, "traceIdDigitsB")
			id = fmt.Sprintf("%016d%016d", a, b)
		} else {
			id = hex16(rapid.Uint64().Draw(g.t, "traceIdA")|0xa<<60) + hex16(rapid.Uint64().Draw(g.t, "traceIdB"))
		}
		if strings.Trim(id, "0") == "" {
			continue
		}
		if !g.usedTr[id] {
			g.usedTr[id] = true
			return id
		}
	}
}

// duration classes: 0, sub-microsecond, µs..ms, ms..s, s..min, min..h, more than an hour.
func (g *genState) duration(maxNs int64, label string) int64 {
	var d int64
	switch rapid.IntRange(0, 11).Draw(g.t, label+"Class") {
	case 0:
		d = 0
	case 1:
		d = rapid.Int64Range(1, 999).Draw(g.t, label)
	case 2, 3:
		d = rapid.Int64Range(1000, 999999).Draw(g.t, label)
	case 4, 5, 6:
		d = rapid.Int64Range(nsPerMs, 999*nsPerMs).Draw(g.t, label)
	case 7, 8:
		d = rapid.Int64Range(nsPerSec, 60*nsPerSec).Draw(g.t, label)
	case 9:
		d = rapid.Int64Range(60*nsPerSec, 3600*nsPerSec).Draw(g.t, label)
	case 10:
		d = rapid.Int64Range(3600*nsPerSec+1, 2*3600*nsPerSec).Draw(g.t, label)
	default:
		// whole milliseconds: ties and exact ms boundaries for the percentile ranks
		d = rapid.Int64Range(0, 50).Draw(g.t, label) * nsPerMs
	}
	if d > maxNs {
		d = maxNs
	}
	return d
}

func (g *genState) status() int {
	switch u := uniform(g.t, "status", 10); {
	case u <= 3:
		return StUnset
	case u <= 6:
		return StOK
	case u <= 8:
		return StError
	}
	return StNone
}

func (g *genState) opName() string {
	if g.oddName && rapid.IntRange(0, 5).Draw(g.t, "oddOp") == 0 {
		return rapid.SampledFrom(oddOpNames).Draw(g.t, "oddOpName")
	}
	return rapid.SampledFrom(opNames).Draw(g.t, "opName")
}

// placement of a root relative to the window
const (
	plRecent = iota // the whole trace within the last minutes (what the 5-minute RED job sees whatever the event-time rule)
	plIn
	plBefore
	plStraddleStart
	plAfter
	plFutureIn
)

// genTrace builds one well-formed trace of n spans: depth <= 8, fan-out <= 6.
func (g *genState) genTrace(n, nsvc int, backNs, fwdNs int64, placement int) []*Span {
	t := g.t
	tid := g.traceID()
	shape := rapid.IntRange(0, 2).Draw(t, "shape") // 0 random, 1 chain-biased, 2 star-biased
	svcStick := rapid.IntRange(0, 9).Draw(t, "svcStick")

	root := &Span{Vid: g.vid, Trace: tid, ID: g.spanID(), Svc: rapid.IntRange(0, nsvc-1).Draw(t, "rootSvc"),
		Name: g.opName(), Status: g.status()}
	g.vid++
	// root times
	switch placement {
	case plRecent:
		root.StartOff = rapid.Int64Range(-150*nsPerSec, -40*nsPerSec).Draw(t, "rootStart")
		root.Dur = g.duration(-35*nsPerSec-root.StartOff, "rootDur")
	case plIn:
		maxDur := backNs - 2*marginNs - nsPerSec
		root.Dur = g.duration(maxDur, "rootDur")
		lo := -backNs + marginNs
		hi := -marginNs - root.Dur
		root.StartOff = rapid.Int64Range(lo, hi).Draw(t, "rootStart")
	case plFutureIn: // clock ahead of the server, still inside the window
		maxDur := fwdNs - 2*marginNs
		root.Dur = g.duration(maxDur, "rootDur")
		root.StartOff = rapid.Int64Range(-marginNs, fwdNs-marginNs-root.Dur).Draw(t, "rootStart")
	case plBefore:
		root.Dur = g.duration(3600*nsPerSec, "rootDur")
		endOff := -backNs - marginNs - rapid.Int64Range(0, 3600*nsPerSec).Draw(t, "rootBefore")
		root.StartOff = endOff - root.Dur
	case plStraddleStart:
		root.StartOff = -backNs - marginNs - rapid.Int64Range(0, 600*nsPerSec).Draw(t, "rootStraddleLead")
		root.Dur = (-backNs + marginNs + rapid.Int64Range(0, 60*nsPerSec).Draw(t, "rootStraddleTail")) - root.StartOff
	case plAfter:
		root.StartOff = fwdNs + marginNs + rapid.Int64Range(0, 600*nsPerSec).Draw(t, "rootAfter")
		root.Dur = g.duration(600*nsPerSec, "rootDur")
	}
	spans := []*Span{root}
	depth := []int{1}
	kids := []int{0}
	elig := []int{0}
	for i := 1; i < n; i++ {
		if len(elig) == 0 {
			break
		}
		var pick int
		biased := rapid.IntRange(0, 9).Draw(t, "attachBias") < 8
		switch {
		case shape == 1 && biased:
			pick = len(elig) - 1
		case shape == 2 && biased:
			pick = 0
		default:
			pick = rapid.IntRange(0, len(elig)-1).Draw(t, "attach")
		}
		pi := elig[pick]
		p := spans[pi]
		s := &Span{Vid: g.vid, Trace: tid, ID: g.spanID(), Parent: p.ID, Name: g.opName(), Status: g.status()}
		g.vid++
		if rapid.IntRange(0, 9).Draw(t, "sameSvc") < svcStick {
			s.Svc = p.Svc
		} else {
			s.Svc = rapid.IntRange(0, nsvc-1).Draw(t, "svc")
		}
		// child times: mostly inside the parent; sometimes skewed before the parent's start or
		// running past its end (clocks of different hosts)
		switch uniform(t, "skew", 10) {
		case 8:
			s.StartOff = p.StartOff - rapid.Int64Range(1, 5*nsPerSec).Draw(t, "skewBefore")
			s.Dur = g.duration(10*nsPerSec, "dur")
		case 9:
			s.StartOff = p.StartOff + p.Dur + rapid.Int64Range(0, 5*nsPerSec).Draw(t, "skewAfter")
			s.Dur = g.duration(10*nsPerSec, "dur")
		case 7:
			s.StartOff = p.StartOff
			s.Dur = p.Dur
		default:
			s.StartOff = p.StartOff + rapid.Int64Range(0, p.Dur).Draw(t, "startIn")
			s.Dur = g.duration(p.Dur+nsPerMs, "dur")
		}
		spans = append(spans, s)
		depth = append(depth, depth[pi]+1)
		kids = append(kids, 0)
		kids[pi]++
		if kids[pi] >= 6 {
			elig = append(elig[:pick], elig[pick+1:]...)
		}
		if depth[i] < 8 {
			elig = append(elig, i)
		}
	}
	// Traces meant to lie inside the window keep every span start inside it, whichever instant the
	// server takes as a span's event time (skew chains could otherwise carry a descendant across an
	// edge); a span that would leave is moved to the root's start.
	var lo, hi int64
	switch placement {
	case plRecent:
		lo, hi = -200*nsPerSec, -5*nsPerSec
	case plIn, plFutureIn:
		lo, hi = -backNs+10*nsPerSec, fwdNs-10*nsPerSec
	default:
		return spans
	}
	for _, s := range spans[1:] {
		if s.StartOff < lo || s.StartOff > hi {
			s.StartOff = root.StartOff
		}
	}
	return spans
}

func genCase(t *rapid.T) *Case {
	g := &genState{t: t, usedIDs: map[string]bool{}, usedTr: map[string]bool{}}
	cs := &Case{}

	// ---- class of the forest -------------------------------------------------------------
	kindDraw := uniformCase(t, "kind", 100)
	bigPct := pt.Scale(3, 6)
	switch {
	case kindDraw < 100-24-bigPct:
		cs.Kind = "normal"
	case kindDraw < 100-12-bigPct:
		cs.Kind = "over100"
	case kindDraw < 100-bigPct:
		cs.Kind = "multipage"
	default:
		cs.Kind = rapid.SampledFrom([]string{"big_trace", "many_spans"}).Draw(t, "bigKind")
	}
	g.numIDs = uniformCase(t, "numericIds", 10) == 9
	g.oddName = uniformCase(t, "oddNames", 8) == 7

	// ---- services -------------------------------------------------------------------------
	nsvc := rapid.IntRange(1, 5).Draw(t, "nServices")
	pool := append([]string(nil), plainServices...)
	switch uniformCase(t, "svcNames", 10) {
	case 7, 8:
		pool = append(append([]string(nil), dottedServices...), plainServices[:3]...)
	case 9:
		pool = append(append([]string(nil), oddServices...), plainServices[:3]...)
	}
	perm := rapid.Permutation(pool).Draw(t, "svcPerm")
	cs.Services = append([]string(nil), perm[:nsvc]...)
	// a quarter of the cases: one of the services sends resources without a service.name attribute
	// (no Resource message / empty attribute list / other attributes only); its name is "".
	if uniformCase(t, "nameless", 4) == 3 {
		nl := rapid.IntRange(0, nsvc-1).Draw(t, "namelessIdx")
		cs.Services[nl] = ""
		cs.Nameless = &nl
	}

	// ---- window ---------------------------------------------------------------------------
	cs.WindowBackMs = rapid.SampledFrom([]int64{15 * 60000, 3600000, 3600000, 3 * 3600000, 24 * 3600000}).Draw(t, "windowBack")
	cs.WindowFwdMs = rapid.SampledFrom([]int64{120000, 600000}).Draw(t, "windowFwd")
	backNs, fwdNs := cs.WindowBackMs*nsPerMs, cs.WindowFwdMs*nsPerMs

	// ---- traces ---------------------------------------------------------------------------
	var traces [][]*Span
	placement := func() int {
		switch u := uniform(t, "placement", 20); {
		case u <= 8:
			return plRecent
		case u == 16:
			return plBefore
		case u == 17:
			return plStraddleStart
		case u == 18:
			return plAfter
		case u == 19:
			return plFutureIn
		}
		return plIn
	}
	switch cs.Kind {
	case "normal":
		ntr := 1
		switch rapid.IntRange(0, 3).Draw(t, "nTracesClass") {
		case 0:
			ntr = rapid.IntRange(1, 3).Draw(t, "nTraces")
		case 1, 2:
			ntr = rapid.IntRange(2, 12).Draw(t, "nTraces")
		default:
			ntr = rapid.IntRange(10, 40).Draw(t, "nTraces")
		}
		budget := 98 // stay within one default result page of spans (see NOTES: dependency graph)
		for i := 0; i < ntr; i++ {
			left := ntr - i - 1
			maxN := budget - left
			if maxN > 40 {
				maxN = 40
			}
			if maxN < 1 {
				maxN = 1
			}
			n := 1
			if maxN > 1 {
				if rapid.IntRange(0, 2).Draw(t, "sizeClass") == 0 {
					n = rapid.IntRange(1, maxN).Draw(t, "traceSize")
				} else {
					m := maxN
					if m > 8 {
						m = 8
					}
					n = rapid.IntRange(1, m).Draw(t, "traceSize")
				}
			}
			tr := g.genTrace(n, nsvc, backNs, fwdNs, placement())
			budget -= len(tr)
			traces = append(traces, tr)
		}
	case "over100":
		// more than 100 spans in the window (more than one default result page of the search API)
		total := rapid.IntRange(101, 400).Draw(t, "totalSpans")
		for total > 0 {
			n := rapid.IntRange(1, 40).Draw(t, "traceSize")
			if n > total {
				n = total
			}
			tr := g.genTrace(n, nsvc, backNs, fwdNs, placement())
			total -= len(tr)
			traces = append(traces, tr)
		}
	case "multipage":
		// more than 50 traces: more than one page of the trace list
		ntr := rapid.IntRange(51, 130).Draw(t, "nTraces")
		if rapid.IntRange(0, 5).Draw(t, "pageBoundary") == 0 {
			ntr = rapid.SampledFrom([]int{51, 99, 100, 101}).Draw(t, "nTracesBoundary")
		}
		for i := 0; i < ntr; i++ {
			n := rapid.IntRange(1, 3).Draw(t, "traceSize")
			traces = append(traces, g.genTrace(n, nsvc, backNs, fwdNs, placement()))
		}
	case "big_trace":
		// one trace larger than one gantt page (1 000 spans) plus a few small ones
		n := rapid.IntRange(1001, 1300).Draw(t, "bigTraceSize")
		traces = append(traces, g.genTrace(n, nsvc, backNs, fwdNs, rapid.SampledFrom([]int{plRecent, plIn}).Draw(t, "bigPlacement")))
		for i := rapid.IntRange(0, 3).Draw(t, "extraTraces"); i > 0; i-- {
			traces = append(traces, g.genTrace(rapid.IntRange(1, 6).Draw(t, "traceSize"), nsvc, backNs, fwdNs, placement()))
		}
	case "many_spans":
		// more than 1 000 spans in the window (more than one page of the RED job)
		total := rapid.IntRange(1001, 2600).Draw(t, "totalSpans")
		for total > 0 {
			n := rapid.IntRange(5, 60).Draw(t, "traceSize")
			if n > total {
				n = total
			}
			tr := g.genTrace(n, nsvc, backNs, fwdNs, placement())
			total -= len(tr)
			traces = append(traces, tr)
		}
	}

	// ---- malformations (safety clauses only) --------------------------------------------------
	if uniformCase(t, "malformed", 100) >= 78 {
		nm := rapid.IntRange(1, 2).Draw(t, "nMalformations")
		for k := 0; k < nm; k++ {
			ti := rapid.IntRange(0, len(traces)-1).Draw(t, "malTrace")
			tr := traces[ti]
			si := rapid.IntRange(0, len(tr)-1).Draw(t, "malSpan")
			s := tr[si]
			kind := rapid.SampledFrom([]string{"missing_parent", "two_roots", "cycle", "self_parent", "dup_id_in_trace",
				"dup_id_across", "no_root", "end_before_start", "orphan_root_gone"}).Draw(t, "malKind")
			switch kind {
			case "missing_parent": // parent id that no span carries
				if s.Parent == "" && len(tr) > 1 {
					s = tr[1+(si%(len(tr)-1))]
				}
				s.Parent = g.spanID()
			case "two_roots":
				if len(tr) > 1 {
					if s.Parent == "" {
						s = tr[1+(si%(len(tr)-1))]
					}
					s.Parent = ""
				} else {
					x := *s
					x.Vid = g.vid
					g.vid++
					x.ID = g.spanID()
					traces[ti] = append(tr, &x)
				}
			case "cycle": // a -> b -> a beside the tree (or instead of it)
				a := &Span{Vid: g.vid, Trace: s.Trace, ID: g.spanID(), Svc: s.Svc, Name: "cycle-a", Status: g.status(), StartOff: s.StartOff, Dur: s.Dur}
				g.vid++
				b := &Span{Vid: g.vid, Trace: s.Trace, ID: g.spanID(), Svc: (s.Svc + 1) % nsvc, Name: "cycle-b", Status: g.status(), StartOff: s.StartOff, Dur: s.Dur}
				g.vid++
				a.Parent, b.Parent = b.ID, a.ID
				traces[ti] = append(tr, a, b)
			case "self_parent":
				s.Parent = s.ID
			case "dup_id_in_trace":
				x := *s
				x.Vid = g.vid
				g.vid++
				x.Name = "dup-" + s.Name
				x.Svc = (s.Svc + 1) % nsvc
				traces[ti] = append(tr, &x)
			case "dup_id_across": // the same span id (and parent id) in another trace
				x := *s
				x.Vid = g.vid
				g.vid++
				tj := rapid.IntRange(0, len(traces)-1).Draw(t, "malOtherTrace")
				if tj == ti {
					x.Trace = g.traceID()
					traces = append(traces, []*Span{&x})
				} else {
					x.Trace = traces[tj][0].Trace
					x.Svc = (s.Svc + 1) % nsvc
					traces[tj] = append(traces[tj], &x)
				}
			case "no_root": // the root points at a span that does not exist
				tr[0].Parent = g.spanID()
			case "end_before_start":
				s.Dur = -rapid.Int64Range(1, 5*nsPerSec).Draw(t, "negDur")
			case "orphan_root_gone": // the root span never arrives
				if len(tr) > 1 {
					traces[ti] = tr[1:]
				} else {
					tr[0].Parent = g.spanID()
				}
			}
			cs.Injected = append(cs.Injected, kind)
		}
	}

	// ---- ingestion order and batching ---------------------------------------------------------
	var all []*Span
	for _, tr := range traces {
		all = append(all, tr...)
	}
	switch rapid.IntRange(0, 3).Draw(t, "order") {
	case 0: // as generated: parents before children, trace by trace
	case 1: // reversed: children before parents
		for i, j := 0, len(all)-1; i < j; i, j = i+1, j-1 {
			all[i], all[j] = all[j], all[i]
		}
	default: // shuffled across traces
		if len(all) <= 400 {
			all = rapid.Permutation(all).Draw(t, "shuffle")
		} else {
			// cheap deterministic interleave for the big classes
			step := rapid.SampledFrom([]int{7, 11, 13, 17, 19}).Draw(t, "stride")
			for gcd(step, len(all)) != 1 {
				step++
			}
			out := make([]*Span, 0, len(all))
			for i, k := 0, 0; i < len(all); i, k = i+1, (k+step)%len(all) {
				out = append(out, all[k])
			}
			all = out
		}
	}
	cs.Spans = all
	rem := len(all)
	maxBatches := 5
	for rem > 0 && len(cs.Batches) < maxBatches-1 {
		var b int
		if rapid.IntRange(0, 2).Draw(t, "oneBatch") == 0 {
			b = rem
		} else {
			b = rapid.IntRange(1, rem).Draw(t, "batch")
		}
		cs.Batches = append(cs.Batches, b)
		rem -= b
	}
	if rem > 0 {
		cs.Batches = append(cs.Batches, rem)
	}
	for range cs.Batches {
		cs.FlushAfter = append(cs.FlushAfter, rapid.IntRange(0, 9).Draw(t, "flush") < 4)
	}
	cs.Rotate = rapid.IntRange(0, 9).Draw(t, "rotate") < 3
	cs.GanttMax = 12
	if len(traces) <= 40 {
		cs.GanttMax = 40
	}
	cs.DepRounds = rapid.IntRange(1, 2).Draw(t, "depRounds")
	return cs
}
