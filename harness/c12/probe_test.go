package c12

import (
	"fmt"
	"os"
	"strconv"
	"testing"

	"verifharness/pt"
	"verifharness/sut"
)

func TestProbe(t *testing.T) {
	if os.Getenv("C12_PROBE") == "" {
		t.Skip()
	}
	n, _ := strconv.Atoi(os.Getenv("C12_PROBE"))
	rootName := os.Getenv("C12_ROOTNAME")
	if rootName == "" {
		rootName = "GET /"
	}
	services := []string{"front", "cart", "db"}
	tr := "0123456789abcdef0123456789abcdef"
	sec := int64(1e9)
	var spans []*Span
	for i := 0; i < n; i++ {
		s := &Span{Vid: i, Trace: tr, ID: fmt.Sprintf("%016x", 0xabc0000+i), Svc: i % 3, Name: "op", Status: i % 3, StartOff: -600*sec + int64(i), Dur: sec}
		if i == 0 {
			s.Name = rootName
		} else {
			s.Parent = spans[(i-1)/2].ID
		}
		spans = append(spans, s)
	}
	cs := &Case{Kind: "probe", Services: services, Spans: spans, Batches: []int{n}, FlushAfter: []bool{true}, WindowBackMs: 3600000, WindowFwdMs: 600000,
		GanttMax: 5, DepRounds: 1}
	if b, _ := strconv.Atoi(os.Getenv("C12_SPLIT")); b > 0 {
		cs.Batches = []int{b, n - b}
		cs.FlushAfter = []bool{os.Getenv("C12_MIDFLUSH") != "", true}
	}
	cs.Rotate = os.Getenv("C12_ROT") != ""
	o := &pt.Obs{}
	err := checkC12(cs, o)
	fmt.Println("check:", err)
	_ = sut.ErrTimeout
}
