package c12

import (
	"encoding/json"
	"fmt"
	"sort"
	"testing"

	"pgregory.net/rapid"

	"verifharness/pt"
	"verifharness/sut"
)

// TestC12Percentile — the latency percentiles of the RED job are computed with a quick-select
// (median of medians). Differential check against the same rank rule evaluated on a sorted copy:
// exact order statistics, so the two must agree for every array and every percentile.

type pctCase struct {
	Arrays [][]uint64 `json:"arrays"`
	Pcts   []int      `json:"pcts"`
}

func genPctArray(t *rapid.T) []uint64 {
	var n int
	switch uniform(t, "lenClass", 10) {
	case 0:
		n = 1
	case 1, 2:
		n = rapid.IntRange(2, 4).Draw(t, "len")
	case 3, 4, 5:
		n = rapid.IntRange(5, 30).Draw(t, "len")
	case 6, 7, 8:
		n = rapid.IntRange(31, 400).Draw(t, "len")
	default:
		n = rapid.IntRange(401, pt.Scale(1500, 6000)).Draw(t, "len")
	}
	a := make([]uint64, n)
	// durations in whole milliseconds: at most 2^64/10^6 < 2^45
	const maxMs = uint64(1) << 44
	switch uniform(t, "pattern", 8) {
	case 0: // few distinct values: many ties
		k := rapid.Uint64Range(1, 5).Draw(t, "distinct")
		for i := range a {
			a[i] = rapid.Uint64Range(0, k).Draw(t, "v")
		}
	case 1: // all equal
		v := rapid.Uint64Range(0, maxMs).Draw(t, "v")
		for i := range a {
			a[i] = v
		}
	case 2: // ascending
		var v uint64
		for i := range a {
			v += rapid.Uint64Range(0, 3).Draw(t, "step")
			a[i] = v
		}
	case 3: // descending
		v := uint64(4 * n)
		for i := range a {
			v -= rapid.Uint64Range(0, 3).Draw(t, "step")
			a[i] = v
		}
	case 4: // mostly 0/1 ms with a few very long ones
		for i := range a {
			if uniform(t, "long", 12) == 11 {
				a[i] = rapid.Uint64Range(1000, maxMs).Draw(t, "v")
			} else {
				a[i] = rapid.Uint64Range(0, 1).Draw(t, "v")
			}
		}
	case 5: // wide range
		for i := range a {
			a[i] = rapid.Uint64Range(0, maxMs).Draw(t, "v")
		}
	case 6: // organ pipe
		for i := range a {
			if i < n/2 {
				a[i] = uint64(i)
			} else {
				a[i] = uint64(n - i)
			}
		}
	default: // medium range
		for i := range a {
			a[i] = rapid.Uint64Range(0, 5000).Draw(t, "v")
		}
	}
	return a
}

func genPctCase(t *rapid.T) *pctCase {
	c := &pctCase{Pcts: []int{50, 90, 95, 99}}
	if uniform(t, "allPcts", 4) == 3 {
		c.Pcts = []int{0, 1, 25, 50, 75, 90, 95, 99, 100}
	}
	na := rapid.IntRange(1, 12).Draw(t, "arrays")
	for i := 0; i < na; i++ {
		c.Arrays = append(c.Arrays, genPctArray(t))
	}
	return c
}

func checkPct(cs *pctCase, o *pt.Obs) error {
	nt := false
	for _, a := range cs.Arrays {
		ties := false
		seen := map[uint64]bool{}
		for _, v := range a {
			if seen[v] {
				ties = true
			}
			seen[v] = true
		}
		frac := false
		for _, p := range cs.Pcts {
			if (p*(len(a)-1))%100 != 0 {
				frac = true
			}
		}
		switch {
		case len(a) < 5:
			o.Class("len_lt_5")
		case len(a) <= 30:
			o.Class("len_5_30")
		case len(a) <= 400:
			o.Class("len_31_400")
		default:
			o.Class("len_gt_400")
		}
		if ties {
			o.Class("ties")
		}
		if frac {
			o.Class("fractional_rank")
		}
		if len(a) >= 5 && ties && frac {
			nt = true
		}
	}
	if nt {
		o.NonTrivial() // an array on the median-of-medians path, with ties and an interpolated rank
	}
	body, _ := json.Marshal(cs)
	var got [][]float64
	err := withRetry(func(r *rec) error {
		got = nil
		return pt.WithWorker(sut.Options{Timeout: callTimeout}, func(c *sut.Client) error {
			return callOp(c, &sut.Req{Op: "c12percentiles", Body: body}, &got, "percentile computation")
		})
	}, o)
	if err != nil {
		return err
	}
	if len(got) != len(cs.Arrays) {
		return pt.Inconclusivef("percentile op returned %d rows for %d arrays", len(got), len(cs.Arrays))
	}
	for i, a := range cs.Arrays {
		sorted := append([]uint64(nil), a...)
		sort.Slice(sorted, func(x, y int) bool { return sorted[x] < sorted[y] })
		for j, p := range cs.Pcts {
			want := percentileSorted(sorted, p)
			if j >= len(got[i]) || !closeTo(got[i][j], want) {
				show := a
				if len(show) > 60 {
					show = show[:60]
				}
				return fmt.Errorf("p%d of %d values: quick-select gives %v, the sorted array gives %v (rank %d·(n−1)/100); values (first 60): %v",
					p, len(a), got[i], want, p, show)
			}
		}
	}
	return nil
}

func TestC12Percentile(t *testing.T) { pt.RunProp(t, "C12", genPctCase, checkPct) }
