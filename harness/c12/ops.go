// Package c12 — property C12: trace views agree with the ingested spans.
//
// This file holds the worker-side operations (they run inside the system-under-test process).
package c12

import (
	"encoding/json"
	"fmt"
	"time"

	"github.com/siglens/siglens/pkg/config"
	eswriter "github.com/siglens/siglens/pkg/es/writer"
	"github.com/siglens/siglens/pkg/otlp"
	tracinghandler "github.com/siglens/siglens/pkg/segment/tracing/handler"
	tutils "github.com/siglens/siglens/pkg/segment/tracing/utils"
	segwriter "github.com/siglens/siglens/pkg/segment/writer"
	sutils "github.com/siglens/siglens/pkg/utils"
	"github.com/valyala/fasthttp"

	"verifharness/sut"
)

func init() {
	sut.RegisterOp("c12now", opNow)
	sut.RegisterOp("c12ingest", opIngest)
	sut.RegisterOp("c12http", opHTTP)
	sut.RegisterOp("c12red", opRed)
	sut.RegisterOp("c12storedep", opStoreDep)
	sut.RegisterOp("c12percentiles", opPercentiles)
}

// opNow returns the worker's wall clock in epoch milliseconds.
func opNow(req *sut.Req) (interface{}, error) {
	return time.Now().UnixMilli(), nil
}

// opIngest posts an OTLP/HTTP protobuf trace export request to the ingest handler.
func opIngest(req *sut.Req) (interface{}, error) {
	ctx := &fasthttp.RequestCtx{}
	ctx.Request.Header.SetMethod("POST")
	ct := "application/x-protobuf"
	if v, ok := req.Args["contentType"]; ok {
		ct = v
	}
	ctx.Request.Header.Set("Content-Type", ct)
	ctx.Request.SetBody(req.Body)
	otlp.ProcessTraceIngest(ctx, req.Org)
	return &sut.HTTPResult{Status: ctx.Response.StatusCode(), Body: append([]byte(nil), ctx.Response.Body()...)}, nil
}

// opHTTP dispatches a JSON body to one of the trace view handlers on an in-memory request.
func opHTTP(req *sut.Req) (interface{}, error) {
	ctx := &fasthttp.RequestCtx{}
	ctx.Request.Header.SetMethod("POST")
	ctx.Request.Header.Set("Content-Type", "application/json; charset=utf-8")
	ctx.Request.SetBody(req.Body)
	switch req.Name {
	case "searchTraces":
		tracinghandler.ProcessSearchTracesRequest(ctx, req.Org)
	case "totalTraces":
		tracinghandler.ProcessTotalTracesRequest(ctx, req.Org)
	case "gantt":
		tracinghandler.ProcessGanttChartRequest(ctx, req.Org)
	case "genDepGraph":
		tracinghandler.ProcessGeneratedDepGraph(ctx, req.Org)
	case "aggDepGraph":
		tracinghandler.ProcessAggregatedDependencyGraphs(ctx, req.Org)
	default:
		return nil, fmt.Errorf("c12http: unknown handler %q", req.Name)
	}
	return &sut.HTTPResult{Status: ctx.Response.StatusCode(), Body: append([]byte(nil), ctx.Response.Body()...)}, nil
}

// opRed runs one pass of the RED-metrics job (what MonitorSpansHealth does every five minutes).
func opRed(req *sut.Req) (interface{}, error) {
	tracinghandler.ProcessRedTracesIngest(req.Org)
	return nil, nil
}

// opStoreDep does what one round of DependencyGraphThread does for one tenant: compute the
// dependency matrix of [start,end] and, if it is not empty, store it in index
// "service-dependency". The store step (writeDependencyMatrix) is unexported, so its few lines
// are repeated here with the same exported calls. Returns the matrix.
func opStoreDep(req *sut.Req) (interface{}, error) {
	m := tracinghandler.MakeTracesDependancyGraph(int64(req.Start), int64(req.End), req.Org)
	if len(m) > 0 {
		js, err := json.Marshal(m)
		if err != nil {
			return nil, err
		}
		now := sutils.GetCurrentTimeInMs()
		tsKey := config.GetTimeStampKey()
		var stackbuf [sutils.UnescapeStackBufSize]byte
		ple, err := segwriter.GetNewPLE(js, now, "service-dependency", &tsKey, stackbuf[:])
		if err != nil {
			return nil, err
		}
		pleArray := []*segwriter.ParsedLogEvent{ple}
		defer segwriter.ReleasePLEs(pleArray)
		err = eswriter.ProcessIndexRequestPle(now, "service-dependency", false, map[string]string{}, req.Org, 0,
			map[string]string{}, map[uint64]string{}, stackbuf[:], pleArray)
		if err != nil {
			return nil, err
		}
	}
	return m, nil
}

// opPercentiles evaluates FindPercentileData (the quick-select used by the RED job) on every
// array × percentile of the request body and returns the results in order.
func opPercentiles(req *sut.Req) (interface{}, error) {
	var in struct {
		Arrays [][]uint64 `json:"arrays"`
		Pcts   []int      `json:"pcts"`
	}
	if err := json.Unmarshal(req.Body, &in); err != nil {
		return nil, err
	}
	out := make([][]float64, len(in.Arrays))
	for i, a := range in.Arrays {
		for _, p := range in.Pcts {
			cp := append([]uint64(nil), a...) // the function reorders its argument
			out[i] = append(out[i], tutils.FindPercentileData(cp, p))
		}
	}
	return out, nil
}
