package c12

import (
	"bytes"
	"encoding/json"
	"errors"
	"fmt"
	"math"
	"sort"
	"strings"
	"testing"
	"time"

	"verifharness/pt"
	"verifharness/sut"
)

// C12 — trace views agree with the ingested spans.

const callTimeout = 60 * time.Second

// The views read spans through the search API in pages of 1 000 records (`from`/`size`).
const pageLimit = 1000
const knownPaging = "C12-paging-over-1000"

// ---- analysis of the generated forest (independent of siglens) -------------------------------

type traceInfo struct {
	ID       string
	Spans    []*Span
	ByID     map[string]*Span
	Vids     map[int]bool
	Root     *Span
	WF       bool // well-formed: unique ids, one root, parents present, acyclic, durations >= 0
	ErrCount int
	Children map[string][]string // parent span id -> child span ids
}

type forestInfo struct {
	Traces   map[string]*traceInfo
	Order    []string // trace ids, sorted
	AllWF    bool     // every trace is well-formed
	ForestWF bool     // AllWF and span ids are unique across the forest
	MaxDepth int
	MaxFan   int
}

func analyse(cs *Case) *forestInfo {
	f := &forestInfo{Traces: map[string]*traceInfo{}}
	globalIDs := map[string]int{}
	for _, s := range cs.Spans {
		ti := f.Traces[s.Trace]
		if ti == nil {
			ti = &traceInfo{ID: s.Trace, ByID: map[string]*Span{}, Vids: map[int]bool{}, Children: map[string][]string{}}
			f.Traces[s.Trace] = ti
			f.Order = append(f.Order, s.Trace)
		}
		ti.Spans = append(ti.Spans, s)
		ti.Vids[s.Vid] = true
		if s.Status == StError {
			ti.ErrCount++
		}
		globalIDs[s.ID]++
	}
	sort.Strings(f.Order)
	f.AllWF = true
	for _, id := range f.Order {
		ti := f.Traces[id]
		wf := true
		roots := 0
		for _, s := range ti.Spans {
			if _, dup := ti.ByID[s.ID]; dup {
				wf = false
			}
			ti.ByID[s.ID] = s
			if s.Parent == "" {
				roots++
				ti.Root = s
			}
			if s.Dur < 0 {
				wf = false
			}
		}
		if roots != 1 {
			wf = false
		}
		for _, s := range ti.Spans {
			if s.Parent == "" {
				continue
			}
			if _, ok := ti.ByID[s.Parent]; !ok {
				wf = false
			}
			ti.Children[s.Parent] = append(ti.Children[s.Parent], s.ID)
		}
		if wf {
			// every span must reach the root (no cycle beside the tree)
			for _, s := range ti.Spans {
				cur, steps := s, 0
				for cur.Parent != "" && steps <= len(ti.Spans) {
					cur = ti.ByID[cur.Parent]
					steps++
				}
				if cur.Parent != "" {
					wf = false
					break
				}
				if steps+1 > f.MaxDepth {
					f.MaxDepth = steps + 1
				}
			}
			if wf {
				for _, ch := range ti.Children {
					if len(ch) > f.MaxFan {
						f.MaxFan = len(ch)
					}
				}
			}
		}
		ti.WF = wf
		if !wf {
			f.AllWF = false
		}
	}
	f.ForestWF = f.AllWF
	for _, n := range globalIDs {
		if n > 1 {
			f.ForestWF = false
		}
	}
	return f
}

// window membership of a root, from offsets only (the window is [now−back, now+fwd] and span
// times are now+offset, so "now" cancels): +1 inside, −1 entirely outside, 0 don't-care.
func rootMembership(root *Span, cs *Case) int {
	lo, hi := -cs.WindowBackMs*nsPerMs, cs.WindowFwdMs*nsPerMs
	if root.StartOff >= lo && root.EndOff() <= hi {
		return +1
	}
	if root.EndOff() < lo || root.StartOff > hi {
		return -1
	}
	return 0
}

// ---- talking to the worker ---------------------------------------------------------------------

type violation struct{ msg string }

func (v *violation) Error() string { return v.msg }

// callOp runs one worker command under the hang bound and maps process-level outcomes to verdicts.
func callOp(c *sut.Client, req *sut.Req, out interface{}, what string) error {
	err := c.CallT(req, out, callTimeout)
	if err == nil {
		return nil
	}
	if errors.Is(err, sut.ErrWorkerDied) {
		return &violation{fmt.Sprintf("server process died during %s: %s", what, pt.CrashDetail(c))}
	}
	if errors.Is(err, sut.ErrTimeout) {
		// Only a view that does not answer is a hang in the sense of the property; and only if the
		// machine itself is responsive (a fresh worker starts and answers promptly).
		if req.Op != "c12http" && req.Op != "c12red" && req.Op != "c12storedep" {
			return pt.Inconclusivef("%s did not answer within %v (not a view)", what, callTimeout)
		}
		if d, perr := loadProbe(); perr != nil || d > 3*time.Second {
			return pt.Inconclusivef("%s did not answer within %v, but the machine is overloaded (fresh worker round trip %v, %v)", what, callTimeout, d, perr)
		}
		se := c.Stderr()
		if len(se) > 6000 {
			se = se[:6000]
		}
		return &violation{fmt.Sprintf("hang: %s did not answer within %v; goroutines:\n%s", what, callTimeout, se)}
	}
	var oe *sut.OpError
	if errors.As(err, &oe) && strings.HasPrefix(oe.Msg, "PANIC:") {
		m := oe.Msg
		if len(m) > 4000 {
			m = m[:4000]
		}
		return &violation{fmt.Sprintf("panic in the request goroutine during %s: %s", what, m)}
	}
	return fmt.Errorf("%s: %v", what, err)
}

// loadProbe measures how long a fresh worker needs to start and answer a trivial command
// (normally 0.1–0.3 s).
func loadProbe() (time.Duration, error) {
	t0 := time.Now()
	err := pt.WithWorker(sut.Options{Timeout: 30 * time.Second}, func(c *sut.Client) error {
		var s string
		return c.Call(&sut.Req{Op: "ping"}, &s)
	})
	return time.Since(t0), err
}

func httpOp(c *sut.Client, name string, body interface{}, what string) (*sut.HTTPResult, error) {
	b, err := json.Marshal(body)
	if err != nil {
		return nil, err
	}
	var hr sut.HTTPResult
	if err := callOp(c, &sut.Req{Op: "c12http", Name: name, Body: b}, &hr, what); err != nil {
		return nil, err
	}
	return &hr, nil
}

func clip(b []byte) string {
	if len(b) > 1500 {
		return string(b[:1500]) + "…"
	}
	return string(b)
}

// ---- views ----------------------------------------------------------------------------------------

type listedTrace struct {
	TraceID   string      `json:"trace_id"`
	Start     json.Number `json:"start_time"`
	End       json.Number `json:"end_time"`
	SpanCount int         `json:"span_count"`
	ErrCount  int         `json:"span_errors_count"`
	Service   string      `json:"service_name"`
	Operation string      `json:"operation_name"`
}

type ganttNode struct {
	SpanID      string                 `json:"span_id"`
	ActualStart json.Number            `json:"actual_start_time"`
	Start       json.Number            `json:"start_time"`
	End         json.Number            `json:"end_time"`
	Duration    json.Number            `json:"duration"`
	Service     string                 `json:"service_name"`
	Operation   string                 `json:"operation_name"`
	Anomalous   bool                   `json:"is_anomalous"`
	Tags        map[string]interface{} `json:"tags"`
	Children    []*ganttNode           `json:"children"`
	Status      string                 `json:"status"`
}

func decodeJSON(b []byte, out interface{}) error {
	d := json.NewDecoder(bytes.NewReader(b))
	d.UseNumber()
	return d.Decode(out)
}

func checkTraceList(c *sut.Client, cs *Case, f *forestInfo, now int64, o *pt.Obs) error {
	se := fmt.Sprint(now - cs.WindowBackMs)
	ee := fmt.Sprint(now + cs.WindowFwdMs)
	pages := (len(f.Order)+49)/50 + 1 // one page beyond the last: safety only
	lastFull := (len(f.Order) + 49) / 50
	seen := map[string]*listedTrace{}
	for p := 1; p <= pages; p++ {
		what := fmt.Sprintf("trace search page %d", p)
		hr, err := httpOp(c, "searchTraces", map[string]interface{}{"searchText": "service=* name=*", "startEpoch": se,
			"endEpoch": ee, "queryLanguage": "Splunk QL", "page": p}, what)
		if err != nil {
			return err
		}
		if p > lastFull {
			continue // beyond the last page: only "answers, no crash" is required
		}
		if hr.Status != 200 {
			if f.AllWF {
				return fmt.Errorf("%s over a well-formed forest answered %d: %s", what, hr.Status, clip(hr.Body))
			}
			o.Class("list_error_on_malformed")
			continue
		}
		var res struct {
			Traces []*listedTrace `json:"traces"`
		}
		if err := decodeJSON(hr.Body, &res); err != nil {
			if f.AllWF {
				return fmt.Errorf("%s: undecodable answer (%v): %s", what, err, clip(hr.Body))
			}
			continue
		}
		for _, lt := range res.Traces {
			ti := f.Traces[lt.TraceID]
			if ti == nil {
				return fmt.Errorf("%s lists trace id %q which was never ingested", what, lt.TraceID)
			}
			if seen[lt.TraceID] != nil {
				return fmt.Errorf("trace %s is listed more than once (again on page %d)", lt.TraceID, p)
			}
			seen[lt.TraceID] = lt
			// never spans of another trace: counts cannot exceed what the trace has
			if lt.SpanCount > len(ti.Spans) || lt.ErrCount > ti.ErrCount {
				return fmt.Errorf("trace %s listed with span_count=%d errors=%d but it has only %d spans, %d with status ERROR",
					lt.TraceID, lt.SpanCount, lt.ErrCount, len(ti.Spans), ti.ErrCount)
			}
		}
	}
	if !f.AllWF {
		return nil // malformed forest: error or partial view is acceptable
	}
	for _, id := range f.Order {
		ti := f.Traces[id]
		lt := seen[id]
		switch rootMembership(ti.Root, cs) {
		case +1:
			if lt == nil {
				return fmt.Errorf("trace %s (root %s %q/%q, %d spans, root offsets start=%dns end=%dns, window=[-%dms,+%dms]) is rooted in the window but missing from the trace list (%d pages read, %d traces listed)",
					id, ti.Root.ID, cs.Services[ti.Root.Svc], ti.Root.Name, len(ti.Spans), ti.Root.StartOff, ti.Root.EndOff(), cs.WindowBackMs, cs.WindowFwdMs, lastFull, len(seen))
			}
		case -1:
			if lt != nil {
				return fmt.Errorf("trace %s is listed although its root lies entirely outside the window (root offsets start=%dns end=%dns, window=[-%dms,+%dms])",
					id, ti.Root.StartOff, ti.Root.EndOff(), cs.WindowBackMs, cs.WindowFwdMs)
			}
		default:
			o.Class("root_straddles_window_edge")
		}
		if lt == nil {
			continue
		}
		wantSvc, wantOp := cs.Services[ti.Root.Svc], ti.Root.Name
		if lt.Service != wantSvc || lt.Operation != wantOp {
			return fmt.Errorf("trace %s listed with root service/operation %q/%q, sent %q/%q", id, lt.Service, lt.Operation, wantSvc, wantOp)
		}
		if lt.SpanCount != len(ti.Spans) || lt.ErrCount != ti.ErrCount {
			return fmt.Errorf("trace %s listed with span_count=%d span_errors_count=%d, sent %d spans of which %d have status ERROR",
				id, lt.SpanCount, lt.ErrCount, len(ti.Spans), ti.ErrCount)
		}
	}
	return nil
}

func tagVid(n *ganttNode) (int, bool) {
	v, ok := n.Tags["vid"]
	if !ok {
		return 0, false
	}
	switch x := v.(type) {
	case json.Number:
		i, err := x.Int64()
		if err != nil {
			fl, err2 := x.Float64()
			if err2 != nil {
				return 0, false
			}
			return int(fl), true
		}
		return int(i), true
	case float64:
		return int(x), true
	}
	return 0, false
}

func checkGantt(c *sut.Client, cs *Case, f *forestInfo, ti *traceInfo, o *pt.Obs) error {
	what := "span tree of trace " + ti.ID
	hr, err := httpOp(c, "gantt", map[string]interface{}{"searchText": "trace_id=" + ti.ID, "startEpoch": "now-365d", "endEpoch": "now"}, what)
	if err != nil {
		return err
	}
	// known finding: a view that has to read more than one 1 000-record page of the search API
	// loses and duplicates records between the pages
	pagedKnown := len(ti.Spans) > pageLimit && pt.KnownFindingOpen(knownPaging)
	if pagedKnown {
		o.Known(knownPaging)
	}
	if hr.Status != 200 {
		if ti.WF && !pagedKnown {
			return fmt.Errorf("%s (well-formed, %d spans) answered %d: %s", what, len(ti.Spans), hr.Status, clip(hr.Body))
		}
		o.Class("gantt_error_on_malformed_or_known")
		return nil
	}
	var root ganttNode
	if err := decodeJSON(hr.Body, &root); err != nil {
		if ti.WF {
			return fmt.Errorf("%s: undecodable answer (%v): %s", what, err, clip(hr.Body))
		}
		return nil
	}
	// walk
	seen := map[string]int{}
	type item struct {
		n      *ganttNode
		parent string
	}
	stack := []item{{&root, ""}}
	visited := 0
	for len(stack) > 0 {
		it := stack[len(stack)-1]
		stack = stack[:len(stack)-1]
		n := it.n
		visited++
		if visited > 4*len(ti.Spans)+16 {
			return fmt.Errorf("%s: the answer has more nodes (%d+) than the trace has spans (%d)", what, visited, len(ti.Spans))
		}
		// never a span of another trace
		if _, ok := ti.ByID[n.SpanID]; !ok {
			return fmt.Errorf("%s shows span %q which does not belong to this trace", what, n.SpanID)
		}
		if vid, ok := tagVid(n); ok && !ti.Vids[vid] {
			return fmt.Errorf("%s shows span %q carrying vid=%d which was sent under another trace id", what, n.SpanID, vid)
		}
		if !ti.WF {
			for _, ch := range n.Children {
				if ch != nil {
					stack = append(stack, item{ch, n.SpanID})
				}
			}
			continue
		}
		seen[n.SpanID]++
		if seen[n.SpanID] > 1 {
			return fmt.Errorf("%s shows span %s more than once", what, n.SpanID)
		}
		s := ti.ByID[n.SpanID]
		if s.Parent != it.parent && !(pagedKnown && it.parent == "") {
			return fmt.Errorf("%s shows span %s beneath %q, sent parent %q", what, n.SpanID, it.parent, s.Parent)
		}
		if n.Service != cs.Services[s.Svc] || n.Operation != s.Name || n.Status != statusString(s.Status) {
			return fmt.Errorf("%s: span %s shown as service=%q operation=%q status=%q, sent %q %q %q", what, n.SpanID,
				n.Service, n.Operation, n.Status, cs.Services[s.Svc], s.Name, statusString(s.Status))
		}
		if n.Duration.String() != fmt.Sprint(s.Dur) {
			return fmt.Errorf("%s: span %s shown with duration %s ns, sent %d", what, n.SpanID, n.Duration, s.Dur)
		}
		if s.StartOff >= ti.Root.StartOff {
			// relative times are defined (a span that starts before the root has no non-negative offset: don't-care)
			ws, we := s.StartOff-ti.Root.StartOff, s.EndOff()-ti.Root.StartOff
			if n.Start.String() != fmt.Sprint(ws) || n.End.String() != fmt.Sprint(we) {
				return fmt.Errorf("%s: span %s shown at relative [%s,%s] ns, sent [%d,%d] relative to the root start", what, n.SpanID, n.Start, n.End, ws, we)
			}
		} else {
			o.Class("span_starts_before_root")
		}
		for _, ch := range n.Children {
			if ch == nil {
				return fmt.Errorf("%s: null child under %s", what, n.SpanID)
			}
			stack = append(stack, item{ch, n.SpanID})
		}
	}
	if ti.WF && !pagedKnown {
		for _, s := range ti.Spans {
			if seen[s.ID] == 0 {
				return fmt.Errorf("%s: span %s (parent %q, service %q, %q) is missing from the tree (%d of %d spans shown)", what, s.ID, s.Parent,
					cs.Services[s.Svc], s.Name, len(seen), len(ti.Spans))
			}
		}
	}
	return nil
}

func matrixString(m map[string]map[string]int) string {
	var parts []string
	for a, row := range m {
		for b, n := range row {
			parts = append(parts, fmt.Sprintf("%s->%s:%d", a, b, n))
		}
	}
	sort.Strings(parts)
	return "{" + strings.Join(parts, " ") + "}"
}

func matrixEqual(a, b map[string]map[string]int) bool { return matrixString(a) == matrixString(b) }

func scaleMatrix(m map[string]map[string]int, k int) map[string]map[string]int {
	out := map[string]map[string]int{}
	for a, row := range m {
		out[a] = map[string]int{}
		for b, n := range row {
			out[a][b] = n * k
		}
	}
	return out
}

func matrixHasDotted(m map[string]map[string]int) bool {
	for a, row := range m {
		if strings.Contains(a, ".") {
			return true
		}
		for b := range row {
			if strings.Contains(b, ".") {
				return true
			}
		}
	}
	return false
}

func dropDotted(m map[string]map[string]int) map[string]map[string]int {
	out := map[string]map[string]int{}
	for a, row := range m {
		if strings.Contains(a, ".") {
			continue
		}
		for b, n := range row {
			if strings.Contains(b, ".") {
				continue
			}
			if out[a] == nil {
				out[a] = map[string]int{}
			}
			out[a][b] = n
		}
	}
	return out
}

func checkDepGraph(c *sut.Client, cs *Case, f *forestInfo, now int64, o *pt.Obs) error {
	se := fmt.Sprint(now - cs.WindowBackMs)
	ee := fmt.Sprint(now + cs.WindowFwdMs)
	want := depMatrix(cs.Services, cs.Spans)
	hr, err := httpOp(c, "genDepGraph", map[string]interface{}{"startEpoch": se, "endEpoch": ee}, "generated dependency graph")
	if err != nil {
		return err
	}
	strict := f.ForestWF
	if strict && len(cs.Spans) > pageLimit && pt.KnownFindingOpen(knownPaging) {
		o.Known(knownPaging)
		strict = false
	}
	if strict {
		if hr.Status != 200 {
			return fmt.Errorf("generated dependency graph answered %d: %s", hr.Status, clip(hr.Body))
		}
		got := map[string]map[string]int{}
		if err := decodeJSON(hr.Body, &got); err != nil {
			return fmt.Errorf("generated dependency graph: undecodable answer (%v): %s", err, clip(hr.Body))
		}
		if !matrixEqual(got, want) {
			return fmt.Errorf("generated dependency graph over %d spans: got %s, the cross-service parent→child pairs sent are %s",
				len(cs.Spans), matrixString(got), matrixString(want))
		}
	}
	// the stored path: what the hourly job computes and stores, then the aggregated view
	var stored map[string]map[string]int
	for r := 0; r < cs.DepRounds; r++ {
		if err := callOp(c, &sut.Req{Op: "c12storedep", Start: uint64(now - cs.WindowBackMs), End: uint64(now + cs.WindowFwdMs)}, &stored,
			"dependency graph job"); err != nil {
			return err
		}
		if strict && !matrixEqual(stored, want) {
			return fmt.Errorf("dependency graph job over %d spans computed %s, the cross-service parent→child pairs sent are %s",
				len(cs.Spans), matrixString(stored), matrixString(want))
		}
	}
	if err := callOp(c, &sut.Req{Op: "flush"}, nil, "flush"); err != nil {
		return err
	}
	hr, err = httpOp(c, "aggDepGraph", map[string]interface{}{"startEpoch": se, "endEpoch": ee}, "aggregated dependency graph")
	if err != nil {
		return err
	}
	if !strict {
		return nil
	}
	if len(want) == 0 {
		if hr.Status == 200 && strings.TrimSpace(string(hr.Body)) != "no dependencies graphs have been generated" {
			// nothing was stored, so nothing may be shown
			var any map[string]interface{}
			if decodeJSON(hr.Body, &any) == nil {
				for k := range any {
					if k != "timestamp" && k != "_index" {
						return fmt.Errorf("aggregated dependency graph shows %s although no cross-service pair was sent", clip(hr.Body))
					}
				}
			}
		}
		return nil
	}
	if hr.Status != 200 {
		return fmt.Errorf("aggregated dependency graph answered %d: %s", hr.Status, clip(hr.Body))
	}
	var raw map[string]interface{}
	if err := decodeJSON(hr.Body, &raw); err != nil {
		return fmt.Errorf("aggregated dependency graph: undecodable answer (%v) after storing %s: %s", err, matrixString(want), clip(hr.Body))
	}
	got := map[string]map[string]int{}
	for k, v := range raw {
		if k == "timestamp" || k == "_index" {
			continue
		}
		row, ok := v.(map[string]interface{})
		if !ok {
			return fmt.Errorf("aggregated dependency graph: entry %q is not an object: %s", k, clip(hr.Body))
		}
		got[k] = map[string]int{}
		for kk, vv := range row {
			num, ok := vv.(json.Number)
			if !ok {
				return fmt.Errorf("aggregated dependency graph: %q→%q is not a number: %s", k, kk, clip(hr.Body))
			}
			n, _ := num.Int64()
			got[k][kk] = int(n)
		}
	}
	wantAgg := scaleMatrix(want, cs.DepRounds)
	if matrixHasDotted(want) && pt.KnownFindingOpen("C12-depgraph-dotted-service") {
		// known finding: the stored graph is flattened with '.' as the separator and split again on
		// '.', so every pair with a dotted service name is dropped from the aggregated view.
		// Exactly those pairs are excluded; the remaining pairs are still compared.
		o.Known("C12-depgraph-dotted-service")
		wantAgg = dropDotted(wantAgg)
	}
	if !matrixEqual(got, wantAgg) {
		return fmt.Errorf("aggregated dependency graph after %d stored graph(s) of %s: got %s, want %s", cs.DepRounds, matrixString(want),
			matrixString(got), matrixString(wantAgg))
	}
	return nil
}

func closeTo(a, b float64) bool {
	if a == b {
		return true
	}
	d := math.Abs(a - b)
	return d <= 1e-9*math.Max(math.Abs(a), math.Abs(b))
}

func checkRED(c *sut.Client, cs *Case, f *forestInfo, now int64, o *pt.Obs) error {
	if err := callOp(c, &sut.Req{Op: "c12red"}, nil, "RED metrics job"); err != nil {
		return err
	}
	if err := callOp(c, &sut.Req{Op: "flush"}, nil, "flush"); err != nil {
		return err
	}
	var sr sut.SearchResult
	if err := callOp(c, &sut.Req{Op: "search", Index: "red-traces", Text: "*", Start: uint64(now - 3600000), End: uint64(now + 3600000), Size: 1000},
		&sr, "search on red-traces"); err != nil {
		return err
	}
	if !f.ForestWF {
		return nil
	}
	if len(cs.Spans) > pageLimit && pt.KnownFindingOpen(knownPaging) {
		o.Known(knownPaging)
		return nil
	}
	if sr.Err != "" {
		return fmt.Errorf("search on red-traces failed: %s", sr.Err)
	}
	want := redMetrics(cs.Services, cs.Spans)
	got := map[string]sut.Record{}
	for _, r := range sr.Records {
		svc, ok := r["service"].Str()
		if !ok {
			// a service name that reads as a number comes back as a number: compare by text
			svc = r["service"].Raw()
		}
		if _, dup := got[svc]; dup {
			return fmt.Errorf("RED job wrote two records for service %q", svc)
		}
		got[svc] = r
	}
	for svc, w := range want {
		r, ok := got[svc]
		if !ok {
			return fmt.Errorf("RED job wrote no record for service %q which has %d entry spans (records: %d)", svc, w.N, len(sr.Records))
		}
		fields := []struct {
			name string
			want float64
		}{{"rate", w.Rate}, {"error_rate", w.ErrorRate}, {"p50", w.P50}, {"p90", w.P90}, {"p95", w.P95}, {"p99", w.P99}}
		for _, fd := range fields {
			gv, ok := r[fd.name].Float()
			if !ok {
				return fmt.Errorf("RED record of service %q: field %s is %q", svc, fd.name, r[fd.name])
			}
			if !closeTo(gv, fd.want) {
				return fmt.Errorf("RED record of service %q (%d entry spans): %s=%v, computed from the sent spans %v; record %v, expected %+v",
					svc, w.N, fd.name, gv, fd.want, r, *w)
			}
		}
	}
	for svc := range got {
		if _, ok := want[svc]; !ok {
			return fmt.Errorf("RED job wrote a record for service %q which has no entry span: %v", svc, got[svc])
		}
	}
	return nil
}

// ---- the check -------------------------------------------------------------------------------------

func classify(cs *Case, f *forestInfo, o *pt.Obs) {
	o.Class("kind_" + cs.Kind)
	if f.ForestWF {
		o.Class("forest_wellformed")
	} else {
		o.Class("forest_malformed")
	}
	for _, m := range cs.Injected {
		o.Class("malformed_" + m)
	}
	usedSvc := map[int]bool{}
	errSpan, zeroDur, longDur, noStatus, numericID, numericTrace := false, false, false, false, false, false
	for _, s := range cs.Spans {
		usedSvc[s.Svc] = true
		if s.Status == StError {
			errSpan = true
		}
		if s.Status == StNone {
			noStatus = true
		}
		if s.Dur == 0 {
			zeroDur = true
		}
		if s.Dur > 3600*nsPerSec {
			longDur = true
		}
		if strings.Trim(s.ID, "0123456789e") == "" {
			numericID = true
		}
		if strings.Trim(s.Trace, "0123456789") == "" {
			numericTrace = true
		}
	}
	dep := depMatrix(cs.Services, cs.Spans)
	o.Class(fmt.Sprintf("services_%d", len(usedSvc)))
	if len(dep) > 0 {
		o.Class("cross_service_edge")
	}
	if errSpan {
		o.Class("error_span")
	}
	if zeroDur {
		o.Class("duration_zero")
	}
	if longDur {
		o.Class("duration_over_1h")
	}
	if noStatus {
		o.Class("span_without_status")
	}
	if numericID {
		o.Class("numeric_looking_span_id")
	}
	if numericTrace {
		o.Class("numeric_looking_trace_id")
	}
	for _, s := range cs.Services {
		if strings.Contains(s, ".") {
			o.Class("dotted_service_name")
		}
	}
	if len(f.Order) > 50 {
		o.Class("multi_page_trace_list")
	}
	if len(cs.Spans) > 100 {
		o.Class("over_100_spans")
	}
	if len(cs.Spans) > 1000 {
		o.Class("over_1000_spans")
	}
	for _, ti := range f.Traces {
		if len(ti.Spans) > 1000 {
			o.Class("trace_over_1000_spans")
		}
	}
	if f.MaxDepth >= 5 {
		o.Class("depth_ge_5")
	}
	if f.MaxDepth == 8 {
		o.Class("depth_8")
	}
	if f.MaxFan >= 4 {
		o.Class("fanout_ge_4")
	}
	if len(cs.Batches) > 1 {
		o.Class("several_batches")
	}
	mid := false
	for i, fl := range cs.FlushAfter {
		if fl && i < len(cs.FlushAfter)-1 {
			mid = true
		}
	}
	if mid {
		o.Class("flush_between_batches")
	}
	if cs.Rotate {
		o.Class("rotated")
	}
	o.Count("spans", int64(len(cs.Spans)))
	o.Count("traces", int64(len(f.Order)))
	o.Max("spans", int64(len(cs.Spans)))
	o.Max("traces", int64(len(f.Order)))
	o.Max("depth", int64(f.MaxDepth))
	o.Max("fanout", int64(f.MaxFan))
	// the stated rule
	if (len(usedSvc) >= 2 && len(dep) > 0 && errSpan) || len(f.Order) > 50 {
		o.NonTrivial()
	}
}

func checkC12(cs *Case, o *pt.Obs) error {
	if len(cs.Spans) == 0 {
		return nil
	}
	f := analyse(cs)
	classify(cs, f, o)
	err := pt.WithWorker(sut.Options{Timeout: callTimeout}, func(c *sut.Client) error {
		var now int64
		if err := callOp(c, &sut.Req{Op: "c12now"}, &now, "clock"); err != nil {
			return err
		}
		baseNs := now * nsPerMs
		pos := 0
		for i, b := range cs.Batches {
			body, err := buildExport(cs.Services, cs.Spans[pos:pos+b], baseNs)
			if err != nil {
				return pt.Inconclusivef("cannot build export request: %v", err)
			}
			pos += b
			var hr sut.HTTPResult
			if err := callOp(c, &sut.Req{Op: "c12ingest", Body: body}, &hr, fmt.Sprintf("OTLP ingest of batch %d", i)); err != nil {
				return err
			}
			if hr.Status != 200 {
				return fmt.Errorf("OTLP ingest of batch %d (%d spans) answered %d: %q", i, b, hr.Status, clip(hr.Body))
			}
			if cs.FlushAfter[i] || i == len(cs.Batches)-1 {
				if err := callOp(c, &sut.Req{Op: "flush"}, nil, "flush"); err != nil {
					return err
				}
			}
		}
		if cs.Rotate {
			if err := callOp(c, &sut.Req{Op: "rotate"}, nil, "rotate"); err != nil {
				return err
			}
		}
		var now2 int64
		if err := callOp(c, &sut.Req{Op: "c12now"}, &now2, "clock"); err != nil {
			return err
		}
		if now2-now > cs.WindowFwdMs-30000 {
			return pt.Inconclusivef("ingestion took %d ms; arrival times too close to the window end", now2-now)
		}

		if err := checkTraceList(c, cs, f, now, o); err != nil {
			return err
		}
		// span trees: the largest traces first, bounded
		ids := append([]string(nil), f.Order...)
		sort.SliceStable(ids, func(i, j int) bool { return len(f.Traces[ids[i]].Spans) > len(f.Traces[ids[j]].Spans) })
		if len(ids) > cs.GanttMax {
			ids = ids[:cs.GanttMax]
		}
		for _, id := range ids {
			if err := checkGantt(c, cs, f, f.Traces[id], o); err != nil {
				return err
			}
		}
		if err := checkDepGraph(c, cs, f, now, o); err != nil {
			return err
		}
		var now3 int64
		if err := callOp(c, &sut.Req{Op: "c12now"}, &now3, "clock"); err != nil {
			return err
		}
		if now3-now > 240000 {
			return pt.Inconclusivef("case took %d ms; the RED job reads only the last five minutes", now3-now)
		}
		return checkRED(c, cs, f, now, o)
	})
	var v *violation
	if errors.As(err, &v) {
		return errors.New(v.msg)
	}
	return err
}

func TestC12(t *testing.T) { pt.RunProp(t, "C12", genCase, checkC12) }
