package c12

import (
	"bytes"
	"encoding/json"
	"errors"
	"fmt"
	"math"
	"sort"
	"strings"
	"testing"
	"time"

	"verifharness/pt"
	"verifharness/sut"
)

// C12 — trace views agree with the ingested spans.

const callTimeout = 60 * time.Second

// The views read spans through the search API in pages of 1 000 records (`from`/`size`).
const pageLimit = 1000
const knownPaging = "C12-paging-over-1000"

func (cs *Case) namelessIdx() int {
	if cs.Nameless == nil {
		return -1
	}
	return *cs.Nameless
}

// ---- analysis of the generated forest (independent of siglens) -------------------------------

type traceInfo struct {
	ID       string
	Spans    []*Span
	ByID     map[string]*Span
	Vids     map[int]bool
	Root     *Span
	WF       bool // well-formed: unique ids, one root, parents present, acyclic, durations >= 0
	ErrCount int
	Children map[string][]string // parent span id -> child span ids
}

type forestInfo struct {
	Traces   map[string]*traceInfo
	Order    []string // trace ids, sorted
	AllWF    bool     // every trace is well-formed
	ForestWF bool     // AllWF and span ids are unique across the forest
	MaxDepth int
	MaxFan   int
}

func analyse(cs *Case) *forestInfo {
	f := &forestInfo{Traces: map[string]*traceInfo{}}
	globalIDs := map[string]int{}
	for _, s := range cs.Spans {
		ti := f.Traces[s.Trace]
		if ti == nil {
			ti = &traceInfo{ID: s.Trace, ByID: map[string]*Span{}, Vids: map[int]bool{}, Children: map[string][]string{}}
			f.Traces[s.Trace] = ti
			f.Order = append(f.Order, s.Trace)
		}
		ti.Spans = append(ti.Spans, s)
		ti.Vids[s.Vid] = true
		if s.Status == StError {
			ti.ErrCount++
		}
		globalIDs[s.ID]++
	}
	sort.Strings(f.Order)
	f.AllWF = true
	for _, id := range f.Order {
		ti := f.Traces[id]
		wf := true
		roots := 0
		for _, s := range ti.Spans {
			if _, dup := ti.ByID[s.ID]; dup {
				wf = false
			}
			ti.ByID[s.ID] = s
			if s.Parent == "" {
				roots++
				ti.Root = s
			}
			if s.Dur < 0 {
				wf = false
			}
		}
		if roots != 1 {
			wf = false
		}
		for _, s := range ti.Spans {
			if s.Parent == "" {
				continue
			}
			if _, ok := ti.ByID[s.Parent]; !ok {
				wf = false
			}
			ti.Children[s.Parent] = append(ti.Children[s.Parent], s.ID)
		}
		if wf {
			// every span must reach the root (no cycle beside the tree)
			for _, s := range ti.Spans {
				cur, steps := s, 0
				for cur.Parent != "" && steps <= len(ti.Spans) {
					cur = ti.ByID[cur.Parent]
					steps++
				}
				if cur.Parent != "" {
					wf = false
					break
				}
				if steps+1 > f.MaxDepth {
					f.MaxDepth = steps + 1
				}
			}
			if wf {
				for _, ch := range ti.Children {
					if len(ch) > f.MaxFan {
						f.MaxFan = len(ch)
					}
				}
			}
		}
		ti.WF = wf
		if !wf {
			f.AllWF = false
		}
	}
	f.ForestWF = f.AllWF
	for _, n := range globalIDs {
		if n > 1 {
			f.ForestWF = false
		}
	}
	return f
}

// ---- talking to the worker ---------------------------------------------------------------------

// rec collects the observations of one attempt at a case; only the final attempt's are reported.
type rec struct {
	classes []string
	known   []string
	counts  map[string]int64
}

func (r *rec) Class(c string)  { r.classes = append(r.classes, c) }
func (r *rec) Known(id string) { r.known = append(r.known, id) }
func (r *rec) Count(k string, n int64) {
	if r.counts == nil {
		r.counts = map[string]int64{}
	}
	r.counts[k] += n
}
func (r *rec) applyTo(o *pt.Obs) {
	for _, c := range r.classes {
		o.Class(c)
	}
	seen := map[string]bool{}
	for _, k := range r.known {
		if !seen[k] {
			o.Known(k)
			seen[k] = true
		}
	}
	for k, n := range r.counts {
		o.Count(k, n)
	}
}

type violation struct{ msg string }

// timeoutErr: a worker command did not answer within callTimeout. view says whether the command
// was one of the trace views (only those can be a hang in the sense of the property).
type timeoutErr struct {
	view bool
	msg  string
}

func (e *timeoutErr) Error() string { return e.msg }

func (v *violation) Error() string { return v.msg }

// callOp runs one worker command under the hang bound and maps process-level outcomes to verdicts.
func callOp(c *sut.Client, req *sut.Req, out interface{}, what string) error {
	err := c.CallT(req, out, callTimeout)
	if err == nil {
		return nil
	}
	if errors.Is(err, sut.ErrWorkerDied) {
		return &violation{fmt.Sprintf("server process died during %s: %s", what, pt.CrashDetail(c))}
	}
	if errors.Is(err, sut.ErrTimeout) {
		se := c.Stderr()
		if len(se) > 6000 {
			se = se[:6000]
		}
		view := req.Op == "c12http" || req.Op == "c12red" || req.Op == "c12storedep" || req.Op == "c12percentiles"
		return &timeoutErr{view: view, msg: fmt.Sprintf("%s did not answer within %v; goroutines:\n%s", what, callTimeout, se)}
	}
	var oe *sut.OpError
	if errors.As(err, &oe) && strings.HasPrefix(oe.Msg, "PANIC:") {
		m := oe.Msg
		if len(m) > 4000 {
			m = m[:4000]
		}
		return &violation{fmt.Sprintf("panic in the request goroutine during %s: %s", what, m)}
	}
	return fmt.Errorf("%s: %v", what, err)
}

// loadProbe measures how long a fresh worker needs to start and answer a trivial command
// (normally 0.1–0.3 s).
func loadProbe() (time.Duration, error) {
	t0 := time.Now()
	err := pt.WithWorker(sut.Options{Timeout: 30 * time.Second}, func(c *sut.Client) error {
		var s string
		return c.Call(&sut.Req{Op: "ping"}, &s)
	})
	return time.Since(t0), err
}

func httpOp(c *sut.Client, name string, body interface{}, what string) (*sut.HTTPResult, error) {
	b, err := json.Marshal(body)
	if err != nil {
		return nil, err
	}
	var hr sut.HTTPResult
	if err := callOp(c, &sut.Req{Op: "c12http", Name: name, Body: b}, &hr, what); err != nil {
		return nil, err
	}
	return &hr, nil
}

func clip(b []byte) string {
	if len(b) > 1500 {
		return string(b[:1500]) + "…"
	}
	return string(b)
}

// ---- event times -----------------------------------------------------------------------------------

// runEnv carries the facts of one run that the expectations depend on: the clock readings, the
// view window and the stored event time of every span. Which instant the server stores as the
// event time of a span (its arrival at the pinned commit, its start time with fix
// C16-carried-event-time) is C16's subject, not this property's; the views select spans by that
// time, so it is read back from index "traces" and window membership is computed from it.
type runEnv struct {
	now, now2 int64         // worker clock (epoch ms) before the first and after the last ingest/flush
	ws, we    int64         // view window, epoch ms
	et        map[int]int64 // vid -> stored event time, epoch ms
}

func (e *runEnv) inWin(s *Span) bool {
	t := e.et[s.Vid]
	return t >= e.ws && t <= e.we
}

func (e *runEnv) startNs(s *Span) int64 { return e.now*nsPerMs + s.StartOff }
func (e *runEnv) endNs(s *Span) int64   { return e.now*nsPerMs + s.EndOff() }

func (e *runEnv) inWindow(spans []*Span) []*Span {
	var out []*Span
	for _, s := range spans {
		if e.inWin(s) {
			out = append(out, s)
		}
	}
	return out
}

const dayMs = int64(86400000)

func readEventTimes(c *sut.Client, cs *Case, env *runEnv, o *rec) error {
	var sr sut.SearchResult
	if err := callOp(c, &sut.Req{Op: "search", Index: "traces", Text: "*", Start: uint64(env.now - 400*dayMs), End: uint64(env.now + 2*dayMs),
		Size: len(cs.Spans) + 10}, &sr, "match-all on index traces"); err != nil {
		return err
	}
	if sr.Err != "" {
		return fmt.Errorf("match-all on index traces failed: %s", sr.Err)
	}
	env.et = map[int]int64{}
	for _, r := range sr.Records {
		v, ok1 := r["vid"].Int()
		ts, ok2 := r["timestamp"].Float()
		if !ok1 || !ok2 {
			continue
		}
		env.et[int(v)] = int64(ts)
	}
	arrival, start := true, true
	for _, s := range cs.Spans {
		t, ok := env.et[s.Vid]
		if !ok {
			return fmt.Errorf("span vid=%d (trace %s, span %s) was acknowledged by the OTLP ingest but is not in index traces (%d of %d spans found)",
				s.Vid, s.Trace, s.ID, len(env.et), len(cs.Spans))
		}
		if t < env.now || t > env.now2 {
			arrival = false
		}
		if t != env.startNs(s)/nsPerMs {
			start = false
		}
	}
	switch {
	case arrival:
		o.Class("event_time_is_arrival")
	case start:
		o.Class("event_time_is_span_start")
	default:
		o.Class("event_time_other")
	}
	return nil
}

// ---- views ----------------------------------------------------------------------------------------

type listedTrace struct {
	TraceID   string      `json:"trace_id"`
	Start     json.Number `json:"start_time"`
	End       json.Number `json:"end_time"`
	SpanCount int         `json:"span_count"`
	ErrCount  int         `json:"span_errors_count"`
	Service   string      `json:"service_name"`
	Operation string      `json:"operation_name"`
}

type ganttNode struct {
	SpanID      string                 `json:"span_id"`
	ActualStart json.Number            `json:"actual_start_time"`
	Start       json.Number            `json:"start_time"`
	End         json.Number            `json:"end_time"`
	Duration    json.Number            `json:"duration"`
	Service     string                 `json:"service_name"`
	Operation   string                 `json:"operation_name"`
	Anomalous   bool                   `json:"is_anomalous"`
	Tags        map[string]interface{} `json:"tags"`
	Children    []*ganttNode           `json:"children"`
	Status      string                 `json:"status"`
}

func decodeJSON(b []byte, out interface{}) error {
	d := json.NewDecoder(bytes.NewReader(b))
	d.UseNumber()
	return d.Decode(out)
}

func checkTraceList(c *sut.Client, cs *Case, f *forestInfo, env *runEnv, o *rec) error {
	se := fmt.Sprint(env.ws)
	ee := fmt.Sprint(env.we)
	// the pages are cut from the traces that have at least one span in the window
	nList := 0
	for _, id := range f.Order {
		if len(env.inWindow(f.Traces[id].Spans)) > 0 {
			nList++
		}
	}
	lastFull := (nList + 49) / 50
	pages := (len(f.Order)+49)/50 + 1 // beyond the last page: safety only
	seen := map[string]*listedTrace{}
	for p := 1; p <= pages; p++ {
		what := fmt.Sprintf("trace search page %d", p)
		hr, err := httpOp(c, "searchTraces", map[string]interface{}{"searchText": "service=* name=*", "startEpoch": se,
			"endEpoch": ee, "queryLanguage": "Splunk QL", "page": p}, what)
		if err != nil {
			return err
		}
		if p > lastFull {
			continue // beyond the last page: only "answers, no crash" is required
		}
		if hr.Status != 200 {
			if f.AllWF {
				return fmt.Errorf("%s over a well-formed forest answered %d: %s", what, hr.Status, clip(hr.Body))
			}
			o.Class("list_error_on_malformed")
			continue
		}
		var res struct {
			Traces []*listedTrace `json:"traces"`
		}
		if err := decodeJSON(hr.Body, &res); err != nil {
			if f.AllWF {
				return fmt.Errorf("%s: undecodable answer (%v): %s", what, err, clip(hr.Body))
			}
			continue
		}
		for _, lt := range res.Traces {
			ti := f.Traces[lt.TraceID]
			if ti == nil {
				return fmt.Errorf("%s lists trace id %q which was never ingested", what, lt.TraceID)
			}
			if seen[lt.TraceID] != nil {
				return fmt.Errorf("trace %s is listed more than once (again on page %d)", lt.TraceID, p)
			}
			seen[lt.TraceID] = lt
			// never spans of another trace: counts cannot exceed what the trace has
			if lt.SpanCount > len(ti.Spans) || lt.ErrCount > ti.ErrCount {
				return fmt.Errorf("trace %s listed with span_count=%d errors=%d but it has only %d spans, %d with status ERROR",
					lt.TraceID, lt.SpanCount, lt.ErrCount, len(ti.Spans), ti.ErrCount)
			}
		}
	}
	if !f.AllWF {
		return nil // malformed forest: error or partial view is acceptable
	}
	wsNs, weNs := env.ws*nsPerMs, env.we*nsPerMs
	for _, id := range f.Order {
		ti := f.Traces[id]
		lt := seen[id]
		root := ti.Root
		rs, re := env.startNs(root), env.endNs(root)
		desc := fmt.Sprintf("root %s %q/%q, %d spans, root start=now%+dns end=now%+dns event time=now%+dms, window=[now-%dms,now+%dms]",
			root.ID, cs.Services[root.Svc], root.Name, len(ti.Spans), root.StartOff, root.EndOff(), env.et[root.Vid]-env.now, cs.WindowBackMs, cs.WindowFwdMs)
		switch {
		case env.inWin(root) && rs >= wsNs && re <= weNs:
			if lt == nil {
				return fmt.Errorf("trace %s (%s) is rooted in the window but missing from the trace list (%d pages read, %d traces listed)",
					id, desc, lastFull, len(seen))
			}
		case !env.inWin(root) || re < wsNs || rs > weNs:
			if lt != nil {
				return fmt.Errorf("trace %s (%s) is listed although its root lies outside the window", id, desc)
			}
		default:
			o.Class("root_straddles_window_edge")
		}
		if lt == nil {
			continue
		}
		wantSvc, wantOp := cs.Services[root.Svc], root.Name
		if lt.Service != wantSvc || lt.Operation != wantOp {
			return fmt.Errorf("trace %s listed with root service/operation %q/%q, sent %q/%q", id, lt.Service, lt.Operation, wantSvc, wantOp)
		}
		if len(env.inWindow(ti.Spans)) != len(ti.Spans) {
			// some spans of the trace have an event time outside the window: whether they count is
			// not fixed by the statement (the upper bounds above still hold)
			o.Class("trace_partly_outside_window")
			continue
		}
		if lt.SpanCount != len(ti.Spans) || lt.ErrCount != ti.ErrCount {
			return fmt.Errorf("trace %s listed with span_count=%d span_errors_count=%d, sent %d spans of which %d have status ERROR",
				id, lt.SpanCount, lt.ErrCount, len(ti.Spans), ti.ErrCount)
		}
	}
	return nil
}

func tagVid(n *ganttNode) (int, bool) {
	v, ok := n.Tags["vid"]
	if !ok {
		return 0, false
	}
	switch x := v.(type) {
	case json.Number:
		i, err := x.Int64()
		if err != nil {
			fl, err2 := x.Float64()
			if err2 != nil {
				return 0, false
			}
			return int(fl), true
		}
		return int(i), true
	case float64:
		return int(x), true
	}
	return 0, false
}

func checkGantt(c *sut.Client, cs *Case, f *forestInfo, env *runEnv, ti *traceInfo, o *rec) error {
	what := "span tree of trace " + ti.ID
	// the UI asks for now-365d..now; an explicit range of the same kind that also covers spans
	// stamped slightly in the future keeps the request independent of the event-time rule
	hr, err := httpOp(c, "gantt", map[string]interface{}{"searchText": "trace_id=" + ti.ID, "startEpoch": fmt.Sprint(env.now - 365*dayMs),
		"endEpoch": fmt.Sprint(env.now + dayMs)}, what)
	if err != nil {
		return err
	}
	// known finding: a view that has to read more than one 1 000-record page of the search API
	// loses and duplicates records between the pages
	pagedKnown := len(ti.Spans) > pageLimit && pt.KnownFindingOpen(knownPaging)
	if pagedKnown {
		o.Known(knownPaging)
	}
	if hr.Status != 200 {
		if ti.WF && !pagedKnown {
			return fmt.Errorf("%s (well-formed, %d spans) answered %d: %s", what, len(ti.Spans), hr.Status, clip(hr.Body))
		}
		o.Class("gantt_error_on_malformed_or_known")
		return nil
	}
	var root ganttNode
	if err := decodeJSON(hr.Body, &root); err != nil {
		if ti.WF {
			return fmt.Errorf("%s: undecodable answer (%v): %s", what, err, clip(hr.Body))
		}
		return nil
	}
	// walk
	seen := map[string]int{}
	type item struct {
		n      *ganttNode
		parent string
	}
	stack := []item{{&root, ""}}
	visited := 0
	for len(stack) > 0 {
		it := stack[len(stack)-1]
		stack = stack[:len(stack)-1]
		n := it.n
		visited++
		if visited > 4*len(ti.Spans)+16 {
			return fmt.Errorf("%s: the answer has more nodes (%d+) than the trace has spans (%d)", what, visited, len(ti.Spans))
		}
		// never a span of another trace
		if _, ok := ti.ByID[n.SpanID]; !ok {
			return fmt.Errorf("%s shows span %q which does not belong to this trace", what, n.SpanID)
		}
		if vid, ok := tagVid(n); ok && !ti.Vids[vid] {
			return fmt.Errorf("%s shows span %q carrying vid=%d which was sent under another trace id", what, n.SpanID, vid)
		}
		if !ti.WF {
			for _, ch := range n.Children {
				if ch != nil {
					stack = append(stack, item{ch, n.SpanID})
				}
			}
			continue
		}
		seen[n.SpanID]++
		if seen[n.SpanID] > 1 {
			return fmt.Errorf("%s shows span %s more than once", what, n.SpanID)
		}
		s := ti.ByID[n.SpanID]
		if s.Parent != it.parent && !(pagedKnown && it.parent == "") {
			return fmt.Errorf("%s shows span %s beneath %q, sent parent %q", what, n.SpanID, it.parent, s.Parent)
		}
		if n.Service != cs.Services[s.Svc] || n.Operation != s.Name || n.Status != statusString(s.Status) {
			return fmt.Errorf("%s: span %s shown as service=%q operation=%q status=%q, sent %q %q %q", what, n.SpanID,
				n.Service, n.Operation, n.Status, cs.Services[s.Svc], s.Name, statusString(s.Status))
		}
		if n.Duration.String() != fmt.Sprint(s.Dur) {
			return fmt.Errorf("%s: span %s shown with duration %s ns, sent %d", what, n.SpanID, n.Duration, s.Dur)
		}
		if s.StartOff >= ti.Root.StartOff {
			// relative times are defined (a span that starts before the root has no non-negative offset: don't-care)
			ws, we := s.StartOff-ti.Root.StartOff, s.EndOff()-ti.Root.StartOff
			if n.Start.String() != fmt.Sprint(ws) || n.End.String() != fmt.Sprint(we) {
				return fmt.Errorf("%s: span %s shown at relative [%s,%s] ns, sent [%d,%d] relative to the root start", what, n.SpanID, n.Start, n.End, ws, we)
			}
		} else {
			o.Class("span_starts_before_root")
		}
		for _, ch := range n.Children {
			if ch == nil {
				return fmt.Errorf("%s: null child under %s", what, n.SpanID)
			}
			stack = append(stack, item{ch, n.SpanID})
		}
	}
	if ti.WF && !pagedKnown {
		for _, s := range ti.Spans {
			if seen[s.ID] == 0 {
				return fmt.Errorf("%s: span %s (parent %q, service %q, %q) is missing from the tree (%d of %d spans shown)", what, s.ID, s.Parent,
					cs.Services[s.Svc], s.Name, len(seen), len(ti.Spans))
			}
		}
	}
	return nil
}

func matrixString(m map[string]map[string]int) string {
	var parts []string
	for a, row := range m {
		for b, n := range row {
			parts = append(parts, fmt.Sprintf("%s->%s:%d", a, b, n))
		}
	}
	sort.Strings(parts)
	return "{" + strings.Join(parts, " ") + "}"
}

func matrixEqual(a, b map[string]map[string]int) bool { return matrixString(a) == matrixString(b) }

func scaleMatrix(m map[string]map[string]int, k int) map[string]map[string]int {
	out := map[string]map[string]int{}
	for a, row := range m {
		out[a] = map[string]int{}
		for b, n := range row {
			out[a][b] = n * k
		}
	}
	return out
}

func checkDepGraph(c *sut.Client, cs *Case, f *forestInfo, env *runEnv, o *rec) error {
	se := fmt.Sprint(env.ws)
	ee := fmt.Sprint(env.we)
	inWin := env.inWindow(cs.Spans)
	want := depMatrix(cs.Services, inWin)
	hr, err := httpOp(c, "genDepGraph", map[string]interface{}{"startEpoch": se, "endEpoch": ee}, "generated dependency graph")
	if err != nil {
		return err
	}
	strict := f.ForestWF
	if strict && len(inWin) > pageLimit && pt.KnownFindingOpen(knownPaging) {
		o.Known(knownPaging)
		strict = false
	}
	if strict {
		if hr.Status != 200 {
			return fmt.Errorf("generated dependency graph answered %d: %s", hr.Status, clip(hr.Body))
		}
		got := map[string]map[string]int{}
		if err := decodeJSON(hr.Body, &got); err != nil {
			return fmt.Errorf("generated dependency graph: undecodable answer (%v): %s", err, clip(hr.Body))
		}
		if !matrixEqual(got, want) {
			return fmt.Errorf("generated dependency graph over %d spans in the window: got %s, the cross-service parent→child pairs sent are %s",
				len(inWin), matrixString(got), matrixString(want))
		}
	}
	// the stored path: what the hourly job computes and stores, then the aggregated view
	var stored map[string]map[string]int
	for r := 0; r < cs.DepRounds; r++ {
		if err := callOp(c, &sut.Req{Op: "c12storedep", Start: uint64(env.ws), End: uint64(env.we)}, &stored,
			"dependency graph job"); err != nil {
			return err
		}
		if strict && !matrixEqual(stored, want) {
			return fmt.Errorf("dependency graph job over %d spans in the window computed %s, the cross-service parent→child pairs sent are %s",
				len(inWin), matrixString(stored), matrixString(want))
		}
	}
	if err := callOp(c, &sut.Req{Op: "flush"}, nil, "flush"); err != nil {
		return err
	}
	hr, err = httpOp(c, "aggDepGraph", map[string]interface{}{"startEpoch": se, "endEpoch": ee}, "aggregated dependency graph")
	if err != nil {
		return err
	}
	if !strict {
		return nil
	}
	if len(want) == 0 {
		if hr.Status == 200 && strings.TrimSpace(string(hr.Body)) != "no dependencies graphs have been generated" {
			// nothing was stored, so nothing may be shown
			var any map[string]interface{}
			if decodeJSON(hr.Body, &any) == nil {
				for k := range any {
					if k != "timestamp" && k != "_index" {
						return fmt.Errorf("aggregated dependency graph shows %s although no cross-service pair was sent", clip(hr.Body))
					}
				}
			}
		}
		return nil
	}
	if hr.Status != 200 {
		return fmt.Errorf("aggregated dependency graph answered %d: %s", hr.Status, clip(hr.Body))
	}
	var raw map[string]interface{}
	if strings.TrimSpace(string(hr.Body)) == "no dependencies graphs have been generated" {
		raw = map[string]interface{}{} // nothing shown
	} else if err := decodeJSON(hr.Body, &raw); err != nil {
		return fmt.Errorf("aggregated dependency graph: undecodable answer (%v) after storing %s: %s", err, matrixString(want), clip(hr.Body))
	}
	got := map[string]map[string]int{}
	for k, v := range raw {
		if k == "timestamp" || k == "_index" {
			continue
		}
		row, ok := v.(map[string]interface{})
		if !ok {
			return fmt.Errorf("aggregated dependency graph: entry %q is not an object: %s", k, clip(hr.Body))
		}
		got[k] = map[string]int{}
		for kk, vv := range row {
			num, ok := vv.(json.Number)
			if !ok {
				return fmt.Errorf("aggregated dependency graph: %q→%q is not a number: %s", k, kk, clip(hr.Body))
			}
			n, _ := num.Int64()
			got[k][kk] = int(n)
		}
	}
	wantAgg := scaleMatrix(want, cs.DepRounds)
	// Known findings on the stored view: the graph is stored as a nested object that ingestion
	// flattens to columns named parent + "." + child (just the child's name when the parent has none),
	// and the aggregated view splits the column names on '.' and keeps those with exactly two parts.
	// Pairs with a dotted service name (C12-depgraph-dotted-service) or a nameless parent
	// (C12-depgraph-nameless-parent) therefore vanish — or, for a nameless parent with a child such
	// as "db.primary", re-appear as the invented pair db→primary. Exactly these pairs are taken
	// out of the comparison: `clean` must be shown with its exact counts, and nothing else may be
	// shown except what such a pair can turn into (`extra`).
	dottedOpen := pt.KnownFindingOpen("C12-depgraph-dotted-service")
	namelessOpen := pt.KnownFindingOpen("C12-depgraph-nameless-parent")
	clean := map[string]map[string]int{}
	extra := map[string]map[string]int{}
	add := func(m map[string]map[string]int, a, b string, n int) {
		if m[a] == nil {
			m[a] = map[string]int{}
		}
		m[a][b] += n
	}
	for a, row := range wantAgg {
		for b, n := range row {
			dotted := strings.Contains(a, ".") || strings.Contains(b, ".")
			switch {
			case a == "" && namelessOpen, dotted && dottedOpen:
				if a == "" {
					o.Known("C12-depgraph-nameless-parent")
				}
				if dotted {
					o.Known("C12-depgraph-dotted-service")
				}
				key := a + "." + b
				if a == "" {
					key = b
				}
				if parts := strings.Split(key, "."); len(parts) == 2 {
					add(extra, parts[0], parts[1], n)
				}
			default:
				add(clean, a, b, n)
			}
		}
	}
	bad := func() error {
		return fmt.Errorf("aggregated dependency graph after %d stored graph(s) of %s: got %s, want %s (tolerated artefacts of the known storage findings: %s)",
			cs.DepRounds, matrixString(want), matrixString(got), matrixString(clean), matrixString(extra))
	}
	for a, row := range clean {
		for b, n := range row {
			if g := got[a][b]; g < n || g > n+extra[a][b] {
				return bad()
			}
		}
	}
	for a, row := range got {
		for b, g := range row {
			if g > clean[a][b]+extra[a][b] {
				return bad()
			}
		}
	}
	return nil
}

func closeTo(a, b float64) bool {
	if a == b {
		return true
	}
	d := math.Abs(a - b)
	return d <= 1e-9*math.Max(math.Abs(a), math.Abs(b))
}

func checkRED(c *sut.Client, cs *Case, f *forestInfo, env *runEnv, o *rec) error {
	var t0, t1 int64
	if err := callOp(c, &sut.Req{Op: "c12now"}, &t0, "clock"); err != nil {
		return err
	}
	if err := callOp(c, &sut.Req{Op: "c12red"}, nil, "RED metrics job"); err != nil {
		return err
	}
	if err := callOp(c, &sut.Req{Op: "c12now"}, &t1, "clock"); err != nil {
		return err
	}
	if err := callOp(c, &sut.Req{Op: "flush"}, nil, "flush"); err != nil {
		return err
	}
	var sr sut.SearchResult
	if err := callOp(c, &sut.Req{Op: "search", Index: "red-traces", Text: "*", Start: uint64(env.now - 3600000), End: uint64(t1 + 3600000), Size: 1000},
		&sr, "search on red-traces"); err != nil {
		return err
	}
	if !f.ForestWF {
		return nil
	}
	// The job reads [n−5 min, n] for some instant n in [t0, t1]. A span is certainly read if its
	// event time lies in [t1−5 min, t0], certainly not if it lies before t0−5 min or after t1;
	// anything else depends on when exactly the job looked: don't-care for the whole case.
	const fiveMin, slack = int64(300000), int64(2)
	var read []*Span
	for _, s := range cs.Spans {
		t := env.et[s.Vid]
		switch {
		case t >= t1-fiveMin+slack && t <= t0-slack:
			read = append(read, s)
		case t < t0-fiveMin-slack || t > t1+slack:
		default:
			o.Class("red_window_edge_ambiguous")
			return nil
		}
	}
	o.Count("red_spans_read", int64(len(read)))
	if len(read) > 0 {
		o.Class("red_nonempty")
	}
	if len(read) > pageLimit && pt.KnownFindingOpen(knownPaging) {
		o.Known(knownPaging)
		return nil
	}
	if sr.Err != "" {
		return fmt.Errorf("search on red-traces failed: %s", sr.Err)
	}
	want := redMetrics(cs.Services, read)
	got := map[string]sut.Record{}
	for _, r := range sr.Records {
		svc, ok := r["service"].Str()
		if !ok {
			// a service name that reads as a number comes back as a number: compare by text
			svc = r["service"].Raw()
		}
		if _, dup := got[svc]; dup {
			return fmt.Errorf("RED job wrote two records for service %q", svc)
		}
		got[svc] = r
	}
	for svc, w := range want {
		r, ok := got[svc]
		if !ok {
			return fmt.Errorf("RED job wrote no record for service %q which has %d entry spans (records: %d)", svc, w.N, len(sr.Records))
		}
		fields := []struct {
			name string
			want float64
		}{{"rate", w.Rate}, {"error_rate", w.ErrorRate}, {"p50", w.P50}, {"p90", w.P90}, {"p95", w.P95}, {"p99", w.P99}}
		for _, fd := range fields {
			gv, ok := r[fd.name].Float()
			if !ok {
				return fmt.Errorf("RED record of service %q: field %s is %q", svc, fd.name, r[fd.name])
			}
			if !closeTo(gv, fd.want) {
				return fmt.Errorf("RED record of service %q (%d entry spans): %s=%v, computed from the sent spans %v; record %v, expected %+v",
					svc, w.N, fd.name, gv, fd.want, r, *w)
			}
		}
	}
	for svc := range got {
		if _, ok := want[svc]; !ok {
			return fmt.Errorf("RED job wrote a record for service %q which has no entry span: %v", svc, got[svc])
		}
	}
	return nil
}

// ---- the check -------------------------------------------------------------------------------------

func classify(cs *Case, f *forestInfo, o *pt.Obs) {
	o.Class("kind_" + cs.Kind)
	if f.ForestWF {
		o.Class("forest_wellformed")
	} else {
		o.Class("forest_malformed")
	}
	for _, m := range cs.Injected {
		o.Class("malformed_" + m)
	}
	usedSvc := map[int]bool{}
	errSpan, zeroDur, longDur, noStatus, numericID, numericTrace := false, false, false, false, false, false
	for _, s := range cs.Spans {
		usedSvc[s.Svc] = true
		if s.Status == StError {
			errSpan = true
		}
		if s.Status == StNone {
			noStatus = true
		}
		if s.Dur == 0 {
			zeroDur = true
		}
		if s.Dur > 3600*nsPerSec {
			longDur = true
		}
		if strings.Trim(s.ID, "0123456789e") == "" {
			numericID = true
		}
		if strings.Trim(s.Trace, "0123456789") == "" {
			numericTrace = true
		}
	}
	dep := depMatrix(cs.Services, cs.Spans)
	o.Class(fmt.Sprintf("services_%d", len(usedSvc)))
	if len(dep) > 0 {
		o.Class("cross_service_edge")
	}
	if errSpan {
		o.Class("error_span")
	}
	if zeroDur {
		o.Class("duration_zero")
	}
	if longDur {
		o.Class("duration_over_1h")
	}
	if noStatus {
		o.Class("span_without_status")
	}
	if numericID {
		o.Class("numeric_looking_span_id")
	}
	if numericTrace {
		o.Class("numeric_looking_trace_id")
	}
	for _, s := range cs.Services {
		if strings.Contains(s, ".") {
			o.Class("dotted_service_name")
		}
	}
	if nl := cs.namelessIdx(); nl >= 0 && usedSvc[nl] {
		o.Class("resource_without_service_name")
		// a nameless resource that follows a named one inside one export request
		pos := 0
		for _, b := range cs.Batches {
			named := false
			for _, s := range cs.Spans[pos : pos+b] {
				if s.Svc != nl {
					named = true
				} else if named {
					o.Class("nameless_resource_after_named_in_request")
					named = false
				}
			}
			pos += b
		}
	}
	if len(f.Order) > 50 {
		o.Class("multi_page_trace_list")
	}
	if len(cs.Spans) > 100 {
		o.Class("over_100_spans")
	}
	if len(cs.Spans) > 1000 {
		o.Class("over_1000_spans")
	}
	for _, ti := range f.Traces {
		if len(ti.Spans) > 1000 {
			o.Class("trace_over_1000_spans")
		}
	}
	if f.MaxDepth >= 5 {
		o.Class("depth_ge_5")
	}
	if f.MaxDepth == 8 {
		o.Class("depth_8")
	}
	if f.MaxFan >= 4 {
		o.Class("fanout_ge_4")
	}
	if len(cs.Batches) > 1 {
		o.Class("several_batches")
	}
	mid := false
	for i, fl := range cs.FlushAfter {
		if fl && i < len(cs.FlushAfter)-1 {
			mid = true
		}
	}
	if mid {
		o.Class("flush_between_batches")
	}
	if cs.Rotate {
		o.Class("rotated")
	}
	o.Count("spans", int64(len(cs.Spans)))
	o.Count("traces", int64(len(f.Order)))
	o.Max("spans", int64(len(cs.Spans)))
	o.Max("traces", int64(len(f.Order)))
	o.Max("depth", int64(f.MaxDepth))
	o.Max("fanout", int64(f.MaxFan))
	// the stated rule
	if (len(usedSvc) >= 2 && len(dep) > 0 && errSpan) || len(f.Order) > 50 {
		o.NonTrivial()
	}
}

// withRetry runs one attempt at a case (fresh worker each time). A command timeout can be a hang
// of the server or a stall of the machine; the case is therefore attempted once more:
//   - the second attempt decides if it finishes (held or violated);
//   - a view that times out in both attempts while a fresh worker still starts promptly is a hang;
//   - everything else is inconclusive.
func withRetry(attempt func(r *rec) error, o *pt.Obs) error {
	r := &rec{}
	err := attempt(r)
	var te *timeoutErr
	var inc *pt.Inconclusive
	if errors.As(err, &inc) { // e.g. the worker did not start in time: environment, try once more
		te = nil
		err = &timeoutErr{view: false, msg: inc.Error()}
	}
	if errors.As(err, &te) {
		first := te
		r = &rec{}
		r.Class("retried_after_timeout")
		err = attempt(r)
		if errors.As(err, &te) {
			if first.view && te.view {
				if d, perr := loadProbe(); perr == nil && d <= 3*time.Second {
					err = &violation{"hang (reproduced in two fresh servers): " + te.msg}
				} else {
					err = pt.Inconclusivef("two timeouts, machine overloaded (fresh worker round trip %v, %v): %s", d, perr, firstLine(te.msg))
				}
			} else {
				err = pt.Inconclusivef("two timeouts: %s / %s", firstLine(first.msg), firstLine(te.msg))
			}
		}
	}
	r.applyTo(o)
	var v *violation
	if errors.As(err, &v) {
		return errors.New(v.msg)
	}
	return err
}

func firstLine(s string) string {
	if i := strings.IndexByte(s, '\n'); i >= 0 {
		return s[:i]
	}
	return s
}

func checkC12(cs *Case, o *pt.Obs) error {
	if len(cs.Spans) == 0 {
		return nil
	}
	f := analyse(cs)
	classify(cs, f, o)
	return withRetry(func(r *rec) error { return runC12(cs, f, r) }, o)
}

func runC12(cs *Case, f *forestInfo, o *rec) error {
	return pt.WithWorker(sut.Options{Timeout: callTimeout}, func(c *sut.Client) error {
		var now int64
		if err := callOp(c, &sut.Req{Op: "c12now"}, &now, "clock"); err != nil {
			return err
		}
		baseNs := now * nsPerMs
		pos := 0
		for i, b := range cs.Batches {
			body, err := buildExport(cs.Services, cs.namelessIdx(), cs.Spans[pos:pos+b], baseNs)
			if err != nil {
				return pt.Inconclusivef("cannot build export request: %v", err)
			}
			pos += b
			var hr sut.HTTPResult
			if err := callOp(c, &sut.Req{Op: "c12ingest", Body: body}, &hr, fmt.Sprintf("OTLP ingest of batch %d", i)); err != nil {
				return err
			}
			if hr.Status != 200 {
				return fmt.Errorf("OTLP ingest of batch %d (%d spans) answered %d: %q", i, b, hr.Status, clip(hr.Body))
			}
			if cs.FlushAfter[i] || i == len(cs.Batches)-1 {
				if err := callOp(c, &sut.Req{Op: "flush"}, nil, "flush"); err != nil {
					return err
				}
			}
		}
		if cs.Rotate {
			if err := callOp(c, &sut.Req{Op: "rotate"}, nil, "rotate"); err != nil {
				return err
			}
		}
		var now2 int64
		if err := callOp(c, &sut.Req{Op: "c12now"}, &now2, "clock"); err != nil {
			return err
		}
		if now2-now > cs.WindowFwdMs-30000 {
			return &timeoutErr{view: false, msg: fmt.Sprintf("ingestion took %d ms; arrival times too close to the window end", now2-now)}
		}
		env := &runEnv{now: now, now2: now2, ws: now - cs.WindowBackMs, we: now + cs.WindowFwdMs}
		if err := readEventTimes(c, cs, env, o); err != nil {
			return err
		}

		if err := checkTraceList(c, cs, f, env, o); err != nil {
			return err
		}
		// span trees: the largest traces first, bounded
		ids := append([]string(nil), f.Order...)
		sort.SliceStable(ids, func(i, j int) bool { return len(f.Traces[ids[i]].Spans) > len(f.Traces[ids[j]].Spans) })
		if len(ids) > cs.GanttMax {
			ids = ids[:cs.GanttMax]
		}
		for _, id := range ids {
			if err := checkGantt(c, cs, f, env, f.Traces[id], o); err != nil {
				return err
			}
		}
		if err := checkDepGraph(c, cs, f, env, o); err != nil {
			return err
		}
		return checkRED(c, cs, f, env, o)
	})
}

func TestC12(t *testing.T) { pt.RunProp(t, "C12", genCase, checkC12) }
