package c19

import (
	"crypto/sha256"
	"encoding/hex"
	"fmt"
	"io/fs"
	"os"
	"path/filepath"
	"sort"
	"strings"
)

// Sandbox layout (one per case):
//
//	ROOT/l1/../l9/outer/mid/inner/data        <- siglens data dir      (excluded from the snapshot)
//	ROOT/l1/../l9/outer/mid/inner/data-aux    <- worker log/aux dir    (excluded)
//	ROOT/l1/../l9/outer/mid/inner/cwd         <- worker cwd            (fenced: part of the snapshot)
//
// The data dir is 13 levels below ROOT; a generated name has at most maxChain (10) `..` elements and
// every path siglens derives from a name starts at or below the data dir (or the cwd), so every
// escape lands inside ROOT. (An escape that left ROOT would only be missed, never misreported.)
// Every level (and a sibling directory `sib` of every level, and the cwd) holds sentinel files.
var levelNames = []string{"l1", "l2", "l3", "l4", "l5", "l6", "l7", "l8", "l9", "outer", "mid", "inner"}

const maxChain = 10

type sandbox struct {
	Root    string
	DataDir string
	AuxDir  string
	Cwd     string
	tokens  map[string]string // token -> file (relative to Root)
}

// sentinel files created in every sentinel directory: name -> content builder
var sentinelFiles = []string{"secret.csv", "secret.json", "secret", "secret.csv.gz", "pwn-target.csv", "pwn-target.json", "pwn-target"}

func token(rel string) string {
	h := sha256.Sum256([]byte("c19|" + rel))
	return "C19SENT" + hex.EncodeToString(h[:6])
}

func sentinelContent(name, tok string) string {
	switch {
	case strings.HasSuffix(name, ".csv"), strings.HasSuffix(name, ".csv.gz"):
		// a valid CSV (the .csv.gz one is deliberately not gzip: it must never be opened at all)
		return "tok,kind\n" + tok + ",sentinel\n"
	case strings.HasSuffix(name, ".json"):
		// valid as an alias file (map[string]bool) and as a JSON object for every other reader
		return `{"` + tok + `":true}`
	default:
		return tok + "\n"
	}
}

func newSandbox(root string) (*sandbox, error) {
	sb := &sandbox{Root: root, tokens: map[string]string{}}
	dir := root
	dirs := []string{root}
	for _, l := range levelNames {
		dir = filepath.Join(dir, l)
		dirs = append(dirs, dir)
	}
	inner := dir
	sb.DataDir = filepath.Join(inner, "data")
	sb.AuxDir = sb.DataDir + "-aux"
	sb.Cwd = filepath.Join(inner, "cwd")
	for _, d := range []string{sb.DataDir, sb.AuxDir, sb.Cwd} {
		if err := os.MkdirAll(d, 0o755); err != nil {
			return nil, err
		}
	}
	var sentDirs []string
	for _, d := range dirs {
		sentDirs = append(sentDirs, d, filepath.Join(d, "sib"))
	}
	sentDirs = append(sentDirs, sb.Cwd)
	for _, d := range sentDirs {
		if err := os.MkdirAll(filepath.Join(d, "keep"), 0o755); err != nil { // an empty directory as well
			return nil, err
		}
		for _, f := range sentinelFiles {
			p := filepath.Join(d, f)
			rel, _ := filepath.Rel(root, p)
			tok := token(rel)
			sb.tokens[tok] = rel
			if err := os.WriteFile(p, []byte(sentinelContent(f, tok)), 0o644); err != nil {
				return nil, err
			}
		}
	}
	return sb, nil
}

// ---- snapshot --------------------------------------------------------------------------------

type fentry struct {
	Mode  fs.FileMode
	Size  int64
	MtimN int64
	Hash  string
	Link  string
}

type snapshot map[string]fentry // path relative to Root

// snap walks Root and skips the data and aux directories. atime is ignored; directory sizes and
// mtimes are ignored (a directory's entry set is compared through the paths below it).
func (sb *sandbox) snap() (snapshot, error) {
	out := snapshot{}
	err := filepath.WalkDir(sb.Root, func(p string, d fs.DirEntry, err error) error {
		if err != nil {
			if os.IsNotExist(err) {
				return nil
			}
			return err
		}
		if p == sb.DataDir || p == sb.AuxDir {
			return filepath.SkipDir
		}
		rel, _ := filepath.Rel(sb.Root, p)
		info, err := d.Info()
		if err != nil {
			if os.IsNotExist(err) {
				return nil
			}
			return err
		}
		e := fentry{Mode: info.Mode()}
		switch {
		case info.Mode().IsRegular():
			e.Size = info.Size()
			e.MtimN = info.ModTime().UnixNano()
			b, err := os.ReadFile(p)
			if err != nil {
				e.Hash = "unreadable:" + err.Error()
			} else {
				h := sha256.Sum256(b)
				e.Hash = hex.EncodeToString(h[:8])
			}
		case info.Mode()&fs.ModeSymlink != 0:
			e.Link, _ = os.Readlink(p)
		}
		out[rel] = e
		return nil
	})
	return out, err
}

// diff lists what changed from a to b (sorted, at most max lines).
func diffSnap(a, b snapshot, max int) []string {
	var out []string
	for p, ea := range a {
		eb, ok := b[p]
		if !ok {
			out = append(out, "DELETED  "+p)
			continue
		}
		if ea != eb {
			what := "MODIFIED"
			if ea.Hash == eb.Hash && ea.Size == eb.Size && ea.Mode == eb.Mode && ea.Link == eb.Link {
				what = "REWRITTEN(same content, new mtime)"
			}
			out = append(out, fmt.Sprintf("%s %s (size %d->%d, hash %s->%s, mode %v->%v)", what, p, ea.Size, eb.Size, ea.Hash, eb.Hash, ea.Mode, eb.Mode))
		}
	}
	for p, eb := range b {
		if _, ok := a[p]; !ok {
			kind := "file"
			if eb.Mode.IsDir() {
				kind = "dir"
			}
			out = append(out, fmt.Sprintf("CREATED  %s (%s, size %d)", p, kind, eb.Size))
		}
	}
	sort.Strings(out)
	if len(out) > max {
		n := len(out) - max
		out = append(out[:max], fmt.Sprintf("... and %d more", n))
	}
	return out
}

// leaked returns the sentinel files whose token occurs in body.
func (sb *sandbox) leaked(body []byte) []string {
	if len(body) == 0 {
		return nil
	}
	s := string(body)
	if !strings.Contains(s, "C19SENT") {
		return nil
	}
	var out []string
	for tok, rel := range sb.tokens {
		if strings.Contains(s, tok) {
			out = append(out, rel)
		}
	}
	sort.Strings(out)
	return out
}
