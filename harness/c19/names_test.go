package c19

import (
	"net/url"
	"strconv"
	"strings"

	"pgregory.net/rapid"
)

// A name is kept in the case as an ASCII-quoted Go string literal (strconv.QuoteToASCII) so that NUL
// bytes, invalid UTF-8 and look-alike runes survive the JSON replay file. The placeholder {ROOT}
// is replaced by the absolute sandbox root when the request is built.

type nameSpec struct {
	Q     string `json:"q"`     // quoted name template
	Class string `json:"class"` // generator class (label only)
}

func (n nameSpec) value(root string) string {
	s, err := strconv.Unquote(n.Q)
	if err != nil {
		s = n.Q
	}
	return strings.ReplaceAll(s, "{ROOT}", root)
}

func mkName(class, s string) nameSpec { return nameSpec{Q: strconv.QuoteToASCII(s), Class: class} }

// what an escaping path would end in: sentinel files (with and without the extension an operation
// appends), the empty sentinel directory, a sibling directory, and names that do not exist yet
var tails = []string{
	"secret", "secret.csv", "secret.json", "secret.csv.gz",
	"pwn-target", "pwn-target.csv", "pwn-target.json",
	"pwnnew", "pwnnew.csv", "pwnnew.json", "pwnnew.csv.gz",
	"keep", "sib/secret", "sib/secret.csv", "sib/secret.json", "sib/pwn-target.json", "sib/pwnnew.csv",
	"cwd/secret.csv", "data-aux/worker.log", "",
}

var dotLookalikes = []string{"．", "․", "。", "%2e", "%2E", "%c0%ae", "\xc0\xae", "%u002e"}
var slashLookalikes = []string{"／", "∕", "⁄", "%2f", "%2F", "%c0%af", "\xc0\xaf", "\\", "%5c", "%252f", "%u2215"}

// picker makes uniform choices on top of rapid. rapid.IntRange / SampledFrom / Uint64 are biased
// towards small and boundary values (a bit length is drawn first), which made the first operation of
// the table appear in 3 of 4 cases. Every choice is therefore the biased draw rotated by a per-case
// pseudo-random offset (derived from three 64-bit draws): uniform over the whole run, still a plain
// rapid draw for replay and shrinking (shrinking a draw to 0 selects the offset, some valid value).
type picker struct {
	t    *rapid.T
	seed uint64
	k    uint64
}

func mix64(x uint64) uint64 {
	x += 0x9e3779b97f4a7c15
	x = (x ^ (x >> 30)) * 0xbf58476d1ce4e5b9
	x = (x ^ (x >> 27)) * 0x94d049bb133111eb
	return x ^ (x >> 31)
}

func newPicker(t *rapid.T) *picker {
	a := rapid.Uint64().Draw(t, "s1")
	b := rapid.Uint64().Draw(t, "s2")
	c := rapid.Uint64().Draw(t, "s3")
	return &picker{t: t, seed: mix64(mix64(mix64(a)^b) ^ c)}
}

func (p *picker) pick(label string, n int) int {
	p.k++
	off := mix64(p.seed + p.k*0x9e3779b97f4a7c15)
	d := rapid.IntRange(0, n-1).Draw(p.t, label)
	return int((uint64(d) + off%uint64(n)) % uint64(n))
}

func (p *picker) str(label string, from []string) string { return from[p.pick(label, len(from))] }

func genName(p *picker) nameSpec {
	tail := p.str("tail", tails)
	n := 1 + p.pick("ups", maxChain)
	switch p.pick("nameClass", 16) {
	case 0, 1, 2: // plain ../ chain; the most direct form gets the largest share
		return mkName("chain", strings.Repeat("../", n)+tail)
	case 3: // the chain behind a root or a no-op element: path.Clean("/../../x") = "/x" drops the climb that the
		// operating system still performs when the raw name is appended to a directory
		pre := p.str("rootPre", []string{"/", "//", "/./", "./", "././", "/x/../", "./x/../"})
		return mkName("chain_rooted", pre+strings.Repeat("../", n)+tail)
	case 4: // encoded separators / dots in the name itself
		up := p.str("encUp", []string{"..%2f", "..%2F", "%2e%2e%2f", "%2e%2e/", "..%252f", "..%c0%af", ".%2e/"})
		return mkName("chain_enc", strings.Repeat(up, n)+tail)
	case 5: // absolute
		lv := p.pick("absLevel", len(levelNames)+1)
		dir := "{ROOT}/" + strings.Join(levelNames[:lv], "/")
		pre := p.str("absPre", []string{"", "/", "//", "file://"})
		return mkName("abs", pre+strings.TrimSuffix(dir, "/")+"/"+tail)
	case 6: // a/../../b: descends first (existing and non-existing first elements)
		first := p.str("first", []string{"a", "x", ".", "lookups", "details", "c19idx", "0"})
		if n >= maxChain {
			n = maxChain - 1
		}
		return mkName("midchain", first+"/"+strings.Repeat("../", n+1)+tail)
	case 7: // trailing dots / slashes
		suf := p.str("trail", []string{".", "/", "/.", "/..", "..", "...", "/../", " ", "./"})
		base := p.str("trailBase", []string{"c19trail", strings.Repeat("../", n) + "keep", strings.Repeat("../", n) + "secret.csv", ".."})
		if strings.Contains(suf, "..") && n >= maxChain {
			base = "c19trail"
		}
		return mkName("trail", base+suf)
	case 8: // NUL byte: C-string truncation of the appended extension
		pos := p.str("nulPos", []string{"end", "beforeExt", "mid"})
		s := strings.Repeat("../", n) + tail
		switch pos {
		case "end":
			s += "\x00"
		case "beforeExt":
			s += "\x00.csv"
		default:
			s = strings.Repeat("../", n) + "\x00" + tail
		}
		return mkName("nul", s)
	case 9: // length extremes
		l := []int{255, 256, 1024, 4096, 4097}[p.pick("len", 5)]
		pre := ""
		if p.pick("longChain", 2) == 1 {
			pre = strings.Repeat("../", n)
		}
		body := strings.Repeat("A", l)
		if p.pick("longWithExt", 2) == 1 && l > 8 {
			body = body[:l-4] + ".csv"
		}
		return mkName("long", pre+body)
	case 10: // unicode / encoding look-alikes of '.' and '/'
		d := p.str("dot", dotLookalikes)
		s := p.str("slash", slashLookalikes)
		mix := p.pick("mix", 3)
		var up string
		switch mix {
		case 0:
			up = d + d + s
		case 1:
			up = ".." + s
		default:
			up = d + d + "/"
		}
		return mkName("lookalike", strings.Repeat(up, n)+tail)
	case 11: // dot-only and empty-ish names
		return mkName("dots", p.str("dots", []string{".", "..", "../..", "../../..", "./..", "..;/", "....//", "....//....//secret.csv", "~", "~/secret.csv", "-", "*", "?", "#", ".csv", "..csv"}))
	case 12: // names that already end in the extension the operation expects, after a harmless-looking element
		first := p.str("first", []string{"x", "reports", "2024"})
		ext := p.str("ext", []string{".csv", ".csv.gz", ".json", ".CSV", ""})
		if n >= maxChain {
			n = maxChain - 1
		}
		return mkName("ext", first+"/"+strings.Repeat("../", n+1)+"pwnnew"+ext)
	case 13: // descends into known directories after climbing
		lv := p.str("into", []string{"keep", "sib", "cwd", "mid", "inner", "outer", "data-aux", "data-aux/logs"})
		return mkName("chain_into", strings.Repeat("../", n)+lv+"/"+p.str("intoTail", []string{"secret.csv", "secret.json", "pwnnew", "pwnnew.csv", "worker.log", ""}))
	default: // harmless control names: the request templates must succeed with these
		return mkName("benign", p.str("benign", []string{"c19name", "c19-idx.2024", "C19_Mixed", "c19name.csv", "c19.name.json"}))
	}
}

// ---- classification of a concrete name ------------------------------------------------------

// decodeOnce applies percent-decoding once (what url.QueryUnescape / a URL-decoding layer would do);
// an undecodable name is returned unchanged.
func decodeOnce(s string) string {
	if d, err := url.QueryUnescape(s); err == nil {
		return d
	}
	if d, err := url.PathUnescape(s); err == nil {
		return d
	}
	return s
}

// hostile reports whether the name, as given or after one percent-decoding, carries a path
// metacharacter: a separator, a `..` element, a NUL byte, or an absolute path.
func hostile(name string) bool {
	for _, s := range []string{name, decodeOnce(name)} {
		if strings.ContainsAny(s, "/\\\x00") || strings.Contains(s, "..") || strings.HasPrefix(s, "~") {
			return true
		}
	}
	return false
}

// climbs reports whether the name has a `..` path element (as given or after one percent-decoding).
func climbs(name string) bool {
	for _, s := range []string{name, decodeOnce(name)} {
		for _, el := range strings.FieldsFunc(s, func(r rune) bool { return r == '/' || r == '\\' }) {
			if el == ".." {
				return true
			}
		}
	}
	return false
}

// ---- placing a name into a request path ------------------------------------------------------

const hexd = "0123456789ABCDEF"

func pctAll(s string) string {
	var sb strings.Builder
	for i := 0; i < len(s); i++ {
		c := s[i]
		if c >= 'a' && c <= 'z' || c >= 'A' && c <= 'Z' || c >= '0' && c <= '9' || c == '-' || c == '_' {
			sb.WriteByte(c)
		} else {
			sb.WriteByte('%')
			sb.WriteByte(hexd[c>>4])
			sb.WriteByte(hexd[c&15])
		}
	}
	return sb.String()
}

// pctMin encodes only what would break the request line or the path split: '/', '%', '?', '#',
// space, control bytes and non-ASCII; dots stay literal.
func pctMin(s string) string {
	var sb strings.Builder
	for i := 0; i < len(s); i++ {
		c := s[i]
		if c == '/' || c == '%' || c == '?' || c == '#' || c <= ' ' || c >= 0x7f {
			sb.WriteByte('%')
			sb.WriteByte(hexd[c>>4])
			sb.WriteByte(hexd[c&15])
		} else {
			sb.WriteByte(c)
		}
	}
	return sb.String()
}

var pathEncs = []string{"raw", "pctmin", "pctall", "double"}

func encodeForPath(enc, name string) string {
	switch enc {
	case "pctmin":
		return pctMin(name)
	case "pctall":
		return pctAll(name)
	case "double":
		return pctAll(pctMin(name))
	default:
		return name
	}
}
