package c19

// Worker side of C19: the siglens HTTP route tables (mirrored from pkg/server/query/server.go and
// pkg/server/ingest/server.go) served by a real fasthttp.Server over an in-memory listener, so a
// request travels the same way as in production: fasthttp request parsing -> fasthttp/router
// (matching on the undecoded path) -> the public handler function of the siglens package.

import (
	"bufio"
	"fmt"
	"net"
	"runtime/debug"
	"strconv"
	"sync"
	"sync/atomic"
	"time"

	"github.com/fasthttp/router"
	"github.com/valyala/fasthttp"
	"github.com/valyala/fasthttp/fasthttputil"

	"github.com/siglens/siglens/pkg/ast/pipesearch"
	"github.com/siglens/siglens/pkg/config"
	"github.com/siglens/siglens/pkg/dashboards"
	esreader "github.com/siglens/siglens/pkg/es/reader"
	eswriter "github.com/siglens/siglens/pkg/es/writer"
	"github.com/siglens/siglens/pkg/hooks"
	"github.com/siglens/siglens/pkg/integrations/loki"
	otsdbwriter "github.com/siglens/siglens/pkg/integrations/otsdb/writer"
	prometheuswriter "github.com/siglens/siglens/pkg/integrations/prometheus/ingest"
	"github.com/siglens/siglens/pkg/integrations/splunk"
	"github.com/siglens/siglens/pkg/lookups"
	"github.com/siglens/siglens/pkg/otlp"
	"github.com/siglens/siglens/pkg/scroll"
	"github.com/siglens/siglens/pkg/segment/writer"
	"github.com/siglens/siglens/pkg/segment/writer/metrics"
	serverutils "github.com/siglens/siglens/pkg/server/utils"
	usq "github.com/siglens/siglens/pkg/usersavedqueries"
	vtable "github.com/siglens/siglens/pkg/virtualtable"

	"verifharness/sut"
)

const orgHeader = "X-C19-Org"

// route is one mirrored registration. Src and Wrapper are the source texts of the registration in
// siglens' server.go; TestC19* verify (parent side) that the pinned tree still contains them.
type route struct {
	Server  string // "query" | "ingest"
	Method  string
	Path    string
	Src     string
	Wrapper string
	H       fasthttp.RequestHandler
}

func withIdQ(h func(*fasthttp.RequestCtx, int64)) fasthttp.RequestHandler {
	return func(ctx *fasthttp.RequestCtx) { serverutils.CallWithMyIdQuery(h, ctx) }
}
func withId(h func(*fasthttp.RequestCtx, int64)) fasthttp.RequestHandler {
	return func(ctx *fasthttp.RequestCtx) { serverutils.CallWithMyId(h, ctx) }
}

const (
	api     = "/api"
	elastic = "/elastic"
)

// The handler bodies are the bodies of the (unexported) wrappers in pkg/server/*/entryHandlers.go.
var routes = []route{
	// ---- query server: lookups
	{"query", "POST", api + "/lookup-upload", `server_utils.API_PREFIX+"/lookup-upload"`, "uploadLookupFileHandler()", lookups.UploadLookupFile},
	{"query", "GET", api + "/lookup-files", `server_utils.API_PREFIX+"/lookup-files"`, "getAllLookupFilesHandler()", lookups.GetAllLookupFiles},
	{"query", "GET", api + "/lookup-files/{lookupFilename}", `server_utils.API_PREFIX+"/lookup-files/{lookupFilename}"`, "getLookupFileHandler()", lookups.GetLookupFile},
	{"query", "DELETE", api + "/lookup-files/{lookupFilename}", `server_utils.API_PREFIX+"/lookup-files/{lookupFilename}"`, "deleteLookupFileHandler()", lookups.DeleteLookupFile},
	// ---- query server: elastic index / alias / search
	{"query", "POST", elastic + "/_bulk", `server_utils.ELASTIC_PREFIX+"/_bulk"`, "esPostBulkHandler()",
		withId(func(ctx *fasthttp.RequestCtx, org int64) { eswriter.ProcessBulkRequest(ctx, org, false) })},
	{"query", "PUT", elastic + "/{indexName}", `server_utils.ELASTIC_PREFIX+"/{indexName}"`, "esPutIndexHandler()", withId(eswriter.ProcessPutIndex)},
	{"query", "DELETE", elastic + "/{indexName}", `server_utils.ELASTIC_PREFIX+"/{indexName}"`, "esDeleteIndexHandler()", withIdQ(eswriter.ProcessDeleteIndex)},
	{"query", "POST", api + "/deleteIndex/{indexName}", `server_utils.API_PREFIX+"/deleteIndex/{indexName}"`, "esDeleteIndexHandler()", withIdQ(eswriter.ProcessDeleteIndex)},
	{"query", "HEAD", elastic + "/{indexName}", `server_utils.ELASTIC_PREFIX+"/{indexName}"`, "esGetIndexAliasExistsHandler()", withIdQ(eswriter.ProcessIndexAliasExist)},
	{"query", "GET", elastic + "/{indexName}/_search", `server_utils.ELASTIC_PREFIX+"/{indexName}/_search"`, "esGetSearchHandler()", withIdQ(esreader.ProcessSearchRequest)},
	{"query", "POST", elastic + "/{indexName}/_search", `server_utils.ELASTIC_PREFIX+"/{indexName}/_search"`, "esGetSearchHandler()", withIdQ(esreader.ProcessSearchRequest)},
	{"query", "GET", elastic + "/{indexName}/{docType}/{idVal}", `server_utils.ELASTIC_PREFIX+"/{indexName}/{docType}/{idVal}"`, "esGetSingleDocHandler()", withId(esreader.ProcessSingleDocGetRequest)},
	{"query", "GET", elastic + "/{indexName}/_alias/{aliasName}", `server_utils.ELASTIC_PREFIX+"/{indexName}/_alias/{aliasName}"`, "esGetIndexAliasesHandler()", withId(eswriter.ProcessGetIndexAlias)},
	{"query", "GET", elastic + "/_alias/{aliasName}", `server_utils.ELASTIC_PREFIX+"/_alias/{aliasName}"`, "esGetAliasHandler()", withIdQ(eswriter.ProcessGetAlias)},
	{"query", "POST", elastic + "/_aliases", `server_utils.ELASTIC_PREFIX+"/_aliases"`, "esPostAliasesHandler()", withIdQ(eswriter.ProcessPostAliasesRequest)},
	{"query", "PUT", elastic + "/{indexName}/_alias/{aliasName}", `server_utils.ELASTIC_PREFIX+"/{indexName}/_alias/{aliasName}"`, "esPutIndexAliasHandler()", withIdQ(eswriter.ProcessPutAliasesRequest)},
	{"query", "GET", elastic + "/_aliases", `server_utils.ELASTIC_PREFIX+"/_aliases"`, "esGetAllAliasesHandler()", withIdQ(eswriter.ProcessGetAllAliases)},
	// ---- query server: search
	{"query", "POST", api + "/search", `server_utils.API_PREFIX+"/search"`, "pipeSearchHandler()", withIdQ(pipesearch.ProcessPipeSearchRequest)},
	// ---- query server: saved queries
	{"query", "POST", api + "/usersavedqueries/save", `server_utils.API_PREFIX+"/usersavedqueries/save"`, "saveUserSavedQueriesHandler()", withIdQ(usq.SaveUserQueries)},
	{"query", "GET", api + "/usersavedqueries/getall", `server_utils.API_PREFIX+"/usersavedqueries/getall"`, "getUserSavedQueriesAllHandler()", withIdQ(usq.GetUserSavedQueriesAll)},
	{"query", "GET", api + "/usersavedqueries/deleteone/{qname}", `server_utils.API_PREFIX+"/usersavedqueries/deleteone/{qname}"`, "deleteUserSavedQueryHandler()", withIdQ(usq.DeleteUserSavedQuery)},
	{"query", "GET", api + "/usersavedqueries/{qname}", `server_utils.API_PREFIX+"/usersavedqueries/{qname}"`, "SearchUserSavedQueryHandler()", withIdQ(usq.SearchUserSavedQuery)},
	// ---- query server: dashboards and folders
	{"query", "POST", api + "/dashboards/create", `server_utils.API_PREFIX+"/dashboards/create"`, "createDashboardHandler()", withIdQ(dashboards.ProcessCreateDashboardRequest)},
	{"query", "POST", api + "/dashboards/update", `server_utils.API_PREFIX+"/dashboards/update"`, "updateDashboardHandler()", withIdQ(dashboards.ProcessUpdateDashboardRequest)},
	{"query", "GET", api + "/dashboards/{dashboard-id}", `server_utils.API_PREFIX+"/dashboards/{dashboard-id}"`, "getDashboardIdHandler()", withIdQ(dashboards.ProcessGetDashboardRequest)},
	{"query", "GET", api + "/dashboards/delete/{dashboard-id}", `server_utils.API_PREFIX+"/dashboards/delete/{dashboard-id}"`, "deleteDashboardHandler()", withIdQ(dashboards.ProcessDeleteDashboardRequest)},
	{"query", "PUT", api + "/dashboards/favorite/{dashboard-id}", `server_utils.API_PREFIX+"/dashboards/favorite/{dashboard-id}"`, "favoriteDashboardHandler()", withIdQ(dashboards.ProcessFavoriteRequest)},
	{"query", "GET", api + "/dashboards/list", `server_utils.API_PREFIX+"/dashboards/list"`, "listAllDashboardsHandler()", withIdQ(dashboards.ProcessListAllItemsRequest)},
	{"query", "POST", api + "/dashboards/folders/create", `server_utils.API_PREFIX+"/dashboards/folders/create"`, "createFolderHandler()", withIdQ(dashboards.ProcessCreateFolderRequest)},
	{"query", "GET", api + "/dashboards/folders/{folder-id}", `server_utils.API_PREFIX+"/dashboards/folders/{folder-id}"`, "getFolderContentsHandler()", withIdQ(dashboards.ProcessGetFolderContentsRequest)},
	{"query", "PUT", api + "/dashboards/folders/{folder-id}", `server_utils.API_PREFIX+"/dashboards/folders/{folder-id}"`, "updateFolderHandler()", withIdQ(dashboards.ProcessUpdateFolderRequest)},
	{"query", "DELETE", api + "/dashboards/folders/{folder-id}", `server_utils.API_PREFIX+"/dashboards/folders/{folder-id}"`, "deleteFolderHandler()", withIdQ(dashboards.ProcessDeleteFolderRequest)},
	{"query", "GET", api + "/dashboards/folders/{folder-id}/count", `server_utils.API_PREFIX+"/dashboards/folders/{folder-id}/count"`, "getFolderNestedCountHandler()", withIdQ(dashboards.ProcessGetFolderNestedCountRequest)},

	// ---- ingest server
	{"ingest", "POST", elastic + "/_bulk", `server_utils.ELASTIC_PREFIX+"/_bulk"`, "esPostBulkHandler()",
		func(ctx *fasthttp.RequestCtx) { eswriter.ProcessBulkRequest(ctx, 0, false) }},
	{"ingest", "PUT", elastic + "/{indexName}", `server_utils.ELASTIC_PREFIX+"/{indexName}"`, "EsPutIndexHandler()", withId(eswriter.ProcessPutIndex)},
	{"ingest", "PUT", elastic + "/{indexName}/_doc/{_id}", `server_utils.ELASTIC_PREFIX+"/{indexName}/_doc/{_id}"`, "esPutPostSingleDocHandler(false)",
		func(ctx *fasthttp.RequestCtx) { eswriter.ProcessPutPostSingleDocRequest(ctx, false, 0) }},
	{"ingest", "POST", elastic + "/{indexName}/_doc/{_id?}", `server_utils.ELASTIC_PREFIX+"/{indexName}/_doc/{_id?}"`, "esPutPostSingleDocHandler(false)",
		func(ctx *fasthttp.RequestCtx) { eswriter.ProcessPutPostSingleDocRequest(ctx, false, 0) }},
	{"ingest", "PUT", elastic + "/{indexName}/_create/{_id}", `server_utils.ELASTIC_PREFIX+"/{indexName}/_create/{_id}"`, "esPutPostSingleDocHandler(false)",
		func(ctx *fasthttp.RequestCtx) { eswriter.ProcessPutPostSingleDocRequest(ctx, false, 0) }},
	{"ingest", "POST", elastic + "/{indexName}/_create/{_id}", `server_utils.ELASTIC_PREFIX+"/{indexName}/_create/{_id}"`, "esPutPostSingleDocHandler(false)",
		func(ctx *fasthttp.RequestCtx) { eswriter.ProcessPutPostSingleDocRequest(ctx, false, 0) }},
	{"ingest", "POST", elastic + "/{indexName}/_update/{_id}", `server_utils.ELASTIC_PREFIX+"/{indexName}/_update/{_id}"`, "esPutPostSingleDocHandler(true)",
		func(ctx *fasthttp.RequestCtx) { eswriter.ProcessPutPostSingleDocRequest(ctx, true, 0) }},
	{"ingest", "PUT", elastic + "/{indexName}/_mapping", `server_utils.ELASTIC_PREFIX+"/{indexName}/_mapping"`, "EsPutIndexHandler()", withId(eswriter.ProcessPutIndex)},
	{"ingest", "PUT", elastic + "/{indexName}/_mapping/{docType}", `server_utils.ELASTIC_PREFIX+"/{indexName}/_mapping/{docType}"`, "EsPutIndexHandler()", withId(eswriter.ProcessPutIndex)},
	{"ingest", "HEAD", elastic + "/{indexName}", `server_utils.ELASTIC_PREFIX+"/{indexName}"`, "EsPutIndexHandler()", withId(eswriter.ProcessPutIndex)},
	{"ingest", "POST", "/loki/api/v1/push", `server_utils.LOKI_PREFIX+"/api/v1/push"`, "lokiPostBulkHandler()", withId(loki.ProcessLokiLogsIngestRequest)},
	{"ingest", "POST", "/otlp/v1/logs", `server_utils.OTLP_PREFIX+"/v1/logs"`, "otlpIngestLogsHandler()", withId(otlp.ProcessLogIngest)},
	{"ingest", "POST", "/otlp/v1/traces", `server_utils.OTLP_PREFIX+"/v1/traces"`, "otlpIngestTracesHandler()", withId(otlp.ProcessTraceIngest)},
	{"ingest", "POST", "/services/collector/event", `"/services/collector/event"`, "splunkHecIngestHandler()", withId(splunk.ProcessSplunkHecIngestRequest)},
	{"ingest", "POST", "/otsdb/api/put", `server_utils.OTSDB_PREFIX+"/api/put"`, "otsdbPutMetricsHandler()", withId(otsdbwriter.PutMetrics)},
	{"ingest", "POST", "/promql/api/v1/write", `server_utils.PROMQL_PREFIX+"/api/v1/write"`, "prometheusPutMetricsHandler()", withId(prometheuswriter.PutMetrics)},
}

// ---- in-memory servers -----------------------------------------------------------------------

type memServer struct {
	ln *fasthttputil.InmemoryListener
}

var (
	servers    = map[string]*memServer{}
	serversMu  sync.Mutex
	lastRouted atomic.Int64 // index into routes of the handler invoked last, -1 if none
	lastPanic  atomic.Value // string
)

func wrap(i int, h fasthttp.RequestHandler) fasthttp.RequestHandler {
	return func(ctx *fasthttp.RequestCtx) {
		lastRouted.Store(int64(i))
		defer func() {
			// siglens' Recovery middleware does not recover panics; a panic on a connection goroutine
			// would end the server process. That is not what C19 is about: report it and go on.
			if r := recover(); r != nil {
				lastPanic.Store(fmt.Sprintf("%v\n%s", r, debug.Stack()))
				ctx.Response.Reset()
				ctx.SetStatusCode(599)
			}
		}()
		h(ctx)
	}
}

func getServer(name string) (*memServer, error) {
	serversMu.Lock()
	defer serversMu.Unlock()
	if s := servers[name]; s != nil {
		return s, nil
	}
	r := router.New()
	n := 0
	for i, rt := range routes {
		if rt.Server != name {
			continue
		}
		r.Handle(rt.Method, rt.Path, wrap(i, rt.H))
		n++
	}
	if n == 0 {
		return nil, fmt.Errorf("no routes for server %q", name)
	}
	var cfg config.WebConfig
	if name == "query" {
		cfg = config.DefaultQueryServerHttpConfig()
	} else {
		cfg = config.DefaultIngestServerHttpConfig()
	}
	// same fields as pkg/server/{query,ingest}/server.go
	srv := &fasthttp.Server{
		Handler:            r.Handler,
		Name:               cfg.Name,
		ReadBufferSize:     cfg.ReadBufferSize,
		MaxConnsPerIP:      cfg.MaxConnsPerIP,
		MaxRequestsPerConn: cfg.MaxRequestsPerConn,
		MaxRequestBodySize: cfg.MaxRequestBodySize,
		Concurrency:        cfg.Concurrency,
	}
	ln := fasthttputil.NewInmemoryListener()
	go func() { _ = srv.Serve(ln) }()
	s := &memServer{ln: ln}
	servers[name] = s
	return s, nil
}

// httpResult is the answer of the c19http operation.
type httpResult struct {
	Status  int    `json:"status"`
	Body    []byte `json:"body"`
	Routed  int    `json:"routed"` // index into routes, -1 when no mirrored handler ran
	Panic   string `json:"panic,omitempty"`
	ConnErr string `json:"connErr,omitempty"` // the server closed the connection without a parsable answer
}

func doHTTP(req *sut.Req) (interface{}, error) {
	s, err := getServer(req.Args["server"])
	if err != nil {
		return nil, err
	}
	lastRouted.Store(-1)
	lastPanic.Store("")
	conn, err := s.ln.Dial()
	if err != nil {
		return nil, err
	}
	defer conn.Close()
	_ = conn.SetDeadline(time.Now().Add(180 * time.Second))
	werr := make(chan error, 1)
	go func() {
		_, e := conn.Write(req.Body)
		werr <- e
	}()
	var resp fasthttp.Response
	if req.Args["head"] == "1" {
		resp.SkipBody = true
	}
	out := &httpResult{Routed: -1}
	rerr := resp.Read(bufio.NewReaderSize(conn, 1<<16))
	_ = conn.Close()
	select {
	case <-werr:
	case <-time.After(5 * time.Second):
	}
	out.Routed = int(lastRouted.Load())
	if p, _ := lastPanic.Load().(string); p != "" {
		out.Panic = p
	}
	if rerr != nil {
		if ne, ok := rerr.(net.Error); ok && ne.Timeout() {
			return nil, fmt.Errorf("c19http: timeout waiting for the response")
		}
		out.ConnErr = rerr.Error()
		return out, nil
	}
	out.Status = resp.StatusCode()
	body := resp.Body()
	if len(body) > 4<<20 {
		body = body[:4<<20]
	}
	out.Body = append([]byte(nil), body...)
	return out, nil
}

func init() {
	sut.RegisterFeature("stores", func() error {
		// cmd/startup: usq.InitUsq(), dashboards.InitDashboards(0) come right after the memory limiter
		if err := usq.InitUsq(); err != nil {
			return err
		}
		if err := dashboards.InitDashboards(0); err != nil {
			return err
		}
		// tenant id as delivered by an authentication layer: an int64 taken from a header
		orgFromHeader := func(ctx *fasthttp.RequestCtx) (int64, error) {
			v := ctx.Request.Header.Peek(orgHeader)
			if len(v) == 0 {
				return 0, nil
			}
			return strconv.ParseInt(string(v), 10, 64)
		}
		hooks.GlobalHooks.GetOrgIdHook = orgFromHeader
		hooks.GlobalHooks.GetOrgIdHookQuery = orgFromHeader
		return nil
	})
	sut.RegisterOp("c19http", doHTTP)
	sut.RegisterOp("c19mflush", func(*sut.Req) (interface{}, error) {
		metrics.ForceFlushMetricsBlock()
		return nil, nil
	})
	// what cmd/startup.ShutdownSiglensServer flushes (names kept in memory reach files here)
	sut.RegisterOp("c19shutdown", func(*sut.Req) (interface{}, error) {
		writer.ForcedFlushToSegfile()
		metrics.ForceFlushMetricsBlock()
		if err := vtable.FlushAliasMapToFile(); err != nil {
			return nil, err
		}
		scroll.ForcedFlushToScrollFile()
		// usageStats.ForceFlushStatstoFile is left out: it needs StartUsageStats (a background
		// service the worker does not run) and derives its paths from the numeric tenant id only
		return nil, nil
	})
}
