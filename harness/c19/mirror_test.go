package c19

import (
	"fmt"
	"os"
	"path/filepath"
	"strings"
)

// The route tables of siglens are built inside (*queryserverCfg).Run / (*ingestionServerCfg).Run,
// which also initialise and listen; they cannot be obtained without starting the real servers.
// worker_test.go therefore mirrors the registrations it needs. verifyRouteMirror re-reads the
// pinned sources and confirms that (a) every mirrored registration is still there with the same
// method, pattern and wrapper and (b) every wrapper still calls the function the mirror calls.
// If siglens changes its routing the check reports INCONCLUSIVE instead of testing a stale table.

// wrapper (as written in server.go) -> text that must occur in the wrapper's body in entryHandlers.go
var wrapperCallee = map[string]string{
	"query/uploadLookupFileHandler":       "lookups.UploadLookupFile(ctx)",
	"query/getAllLookupFilesHandler":      "lookups.GetAllLookupFiles(ctx)",
	"query/getLookupFileHandler":          "lookups.GetLookupFile(ctx)",
	"query/deleteLookupFileHandler":       "lookups.DeleteLookupFile(ctx)",
	"query/esPostBulkHandler":             "eswriter.ProcessBulkRequest(ctx, orgId, false)",
	"query/esPutIndexHandler":             "CallWithMyId(eswriter.ProcessPutIndex, ctx)",
	"query/esDeleteIndexHandler":          "CallWithMyIdQuery(eswriter.ProcessDeleteIndex, ctx)",
	"query/esGetIndexAliasExistsHandler":  "CallWithMyIdQuery(eswriter.ProcessIndexAliasExist, ctx)",
	"query/esGetSearchHandler":            "CallWithMyIdQuery(esreader.ProcessSearchRequest, ctx)",
	"query/esGetSingleDocHandler":         "CallWithMyId(esreader.ProcessSingleDocGetRequest, ctx)",
	"query/esGetIndexAliasesHandler":      "CallWithMyId(eswriter.ProcessGetIndexAlias, ctx)",
	"query/esGetAliasHandler":             "CallWithMyIdQuery(eswriter.ProcessGetAlias, ctx)",
	"query/esPostAliasesHandler":          "CallWithMyIdQuery(eswriter.ProcessPostAliasesRequest, ctx)",
	"query/esPutIndexAliasHandler":        "CallWithMyIdQuery(eswriter.ProcessPutAliasesRequest, ctx)",
	"query/esGetAllAliasesHandler":        "CallWithMyIdQuery(eswriter.ProcessGetAllAliases, ctx)",
	"query/pipeSearchHandler":             "CallWithMyIdQuery(pipesearch.ProcessPipeSearchRequest, ctx)",
	"query/saveUserSavedQueriesHandler":   "CallWithMyIdQuery(usq.SaveUserQueries, ctx)",
	"query/getUserSavedQueriesAllHandler": "CallWithMyIdQuery(usq.GetUserSavedQueriesAll, ctx)",
	"query/deleteUserSavedQueryHandler":   "CallWithMyIdQuery(usq.DeleteUserSavedQuery, ctx)",
	"query/SearchUserSavedQueryHandler":   "CallWithMyIdQuery(usq.SearchUserSavedQuery, ctx)",
	"query/createDashboardHandler":        "CallWithMyIdQuery(dashboards.ProcessCreateDashboardRequest, ctx)",
	"query/updateDashboardHandler":        "CallWithMyIdQuery(dashboards.ProcessUpdateDashboardRequest, ctx)",
	"query/getDashboardIdHandler":         "CallWithMyIdQuery(dashboards.ProcessGetDashboardRequest, ctx)",
	"query/deleteDashboardHandler":        "CallWithMyIdQuery(dashboards.ProcessDeleteDashboardRequest, ctx)",
	"query/favoriteDashboardHandler":      "CallWithMyIdQuery(dashboards.ProcessFavoriteRequest, ctx)",
	"query/listAllDashboardsHandler":      "CallWithMyIdQuery(dashboards.ProcessListAllItemsRequest, ctx)",
	"query/createFolderHandler":           "CallWithMyIdQuery(dashboards.ProcessCreateFolderRequest, ctx)",
	"query/getFolderContentsHandler":      "CallWithMyIdQuery(dashboards.ProcessGetFolderContentsRequest, ctx)",
	"query/updateFolderHandler":           "CallWithMyIdQuery(dashboards.ProcessUpdateFolderRequest, ctx)",
	"query/deleteFolderHandler":           "CallWithMyIdQuery(dashboards.ProcessDeleteFolderRequest, ctx)",
	"query/getFolderNestedCountHandler":   "CallWithMyIdQuery(dashboards.ProcessGetFolderNestedCountRequest, ctx)",
	"ingest/esPostBulkHandler":            "eswriter.ProcessBulkRequest(ctx, 0, false)",
	"ingest/EsPutIndexHandler":            "CallWithMyId(eswriter.ProcessPutIndex, ctx)",
	"ingest/esPutPostSingleDocHandler":    "eswriter.ProcessPutPostSingleDocRequest(ctx, update, 0)",
	"ingest/splunkHecIngestHandler":       "CallWithMyId(splunk.ProcessSplunkHecIngestRequest, ctx)",
	"ingest/lokiPostBulkHandler":          "CallWithMyId(loki.ProcessLokiLogsIngestRequest, ctx)",
	"ingest/otlpIngestLogsHandler":        "CallWithMyId(otlp.ProcessLogIngest, ctx)",
	"ingest/otlpIngestTracesHandler":      "CallWithMyId(otlp.ProcessTraceIngest, ctx)",
	"ingest/otsdbPutMetricsHandler":       "CallWithMyId(otsdbwriter.PutMetrics, ctx)",
	"ingest/prometheusPutMetricsHandler":  "CallWithMyId(prometheuswriter.PutMetrics, ctx)",
}

func repoDir() string {
	if r := os.Getenv("VERIF_REPO"); r != "" {
		return r
	}
	return "/repo"
}

func funcBody(src, name string) string {
	i := strings.Index(src, "\nfunc "+name+"(")
	if i < 0 {
		return ""
	}
	rest := src[i+1:]
	if j := strings.Index(rest, "\nfunc "); j >= 0 {
		return rest[:j]
	}
	return rest
}

func verifyRouteMirror() error {
	srcs := map[string][2]string{}
	for _, s := range []string{"query", "ingest"} {
		a, err := os.ReadFile(filepath.Join(repoDir(), "pkg/server", s, "server.go"))
		if err != nil {
			return err
		}
		b, err := os.ReadFile(filepath.Join(repoDir(), "pkg/server", s, "entryHandlers.go"))
		if err != nil {
			return err
		}
		srcs[s] = [2]string{string(a), string(b)}
	}
	for _, rt := range routes {
		server, handlers := srcs[rt.Server][0], srcs[rt.Server][1]
		found := false
		for _, line := range strings.Split(server, "\n") {
			if strings.Contains(line, "."+rt.Method+"("+rt.Src+",") && strings.Contains(line, rt.Wrapper) {
				found = true
				break
			}
		}
		if !found {
			return fmt.Errorf("%s server.go no longer registers %s %s with %s", rt.Server, rt.Method, rt.Src, rt.Wrapper)
		}
		wname := rt.Wrapper[:strings.Index(rt.Wrapper, "(")]
		callee, ok := wrapperCallee[rt.Server+"/"+wname]
		if !ok {
			return fmt.Errorf("no callee recorded for %s/%s", rt.Server, wname)
		}
		if body := funcBody(handlers, wname); !strings.Contains(body, callee) {
			return fmt.Errorf("%s entryHandlers.go: %s no longer contains %q", rt.Server, wname, callee)
		}
	}
	// the OTLP log route takes the index name from a resource attribute whose key is an unexported
	// constant: the request builder (ingest_test.go) must use the same key
	logs, err := os.ReadFile(filepath.Join(repoDir(), "pkg/otlp/logs.go"))
	if err != nil {
		return err
	}
	if want := fmt.Sprintf("const indexNameAttributeKey = %q", otlpIndexAttr); !strings.Contains(string(logs), want) {
		return fmt.Errorf("pkg/otlp/logs.go no longer contains %s", want)
	}
	// what the mirror relies on in fasthttp/router: parameters are matched on the undecoded path
	return nil
}
