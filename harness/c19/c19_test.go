package c19

// C19 — user-supplied names cannot reach files outside the data directory.
//
// A case is a short sequence of API operations carrying adversarial names, run against a fresh
// worker whose data directory sits deep inside a sandbox full of sentinel files. After every
// operation the sandbox outside the data and log directories must be byte-for-byte unchanged and
// no response may contain the content of a sentinel file.

import (
	"bytes"
	"encoding/json"
	"errors"
	"fmt"
	"mime/multipart"
	"os"
	"path/filepath"
	"strconv"
	"strings"
	"sync"
	"testing"
	"time"

	"github.com/golang/snappy"
	"github.com/prometheus/prometheus/prompb"
	"pgregory.net/rapid"

	"verifharness/pt"
	"verifharness/sut"
)

type step struct {
	Op   string   `json:"op"`
	Name nameSpec `json:"name"`
	Enc  string   `json:"enc"` // how the name is placed into a request path (path-carried names only)
	V    int      `json:"v"`   // operation variant bits
	Org  int64    `json:"org"`
}

type c19Case struct {
	Steps []step `json:"steps"`
}

// carrier: how the name travels. path = URL path parameter, body = JSON/protobuf body field,
// form = multipart form value, spl = inside the query text, none = the operation has no name.
type opSpec struct {
	Name    string
	Carrier string
	Weight  int
	NV      int // number of distinct request variants (values of V that differ)
}

var opSpecs = []opSpec{
	{"lookup_upload", "form", 6, 4},
	{"lookup_get", "path", 4, 1},
	{"lookup_delete", "path", 4, 1},
	{"lookup_list", "none", 1, 1},
	{"bulk", "body", 6, 8},
	{"doc_index", "path", 3, 4},
	{"doc_create", "path", 3, 3},
	{"put_index", "path", 3, 2},
	{"put_mapping", "path", 2, 3},
	{"delete_index", "path", 4, 2},
	{"head_index", "path", 1, 1},
	{"es_search", "path", 3, 4},
	{"es_getdoc", "path", 2, 1},
	{"alias_post", "body", 5, 4},
	{"alias_put", "path", 3, 2},
	{"alias_get", "path", 3, 2},
	{"alias_list", "none", 1, 1},
	{"search_spl", "spl", 6, 4},
	{"usq_save", "body", 2, 1},
	{"usq_get", "path", 2, 1},
	{"usq_delete", "path", 2, 1},
	{"usq_all", "none", 1, 1},
	{"dash_create", "body", 3, 2},
	{"dash_get", "path", 3, 1},
	{"dash_update", "body", 3, 2},
	{"dash_delete", "path", 3, 1},
	{"dash_fav", "path", 3, 1},
	{"dash_list", "none", 1, 1},
	{"folder_create", "body", 2, 2},
	{"folder_get", "path", 2, 1},
	{"folder_put", "path", 2, 1},
	{"folder_delete", "path", 2, 1},
	{"folder_count", "path", 1, 1},
	{"otsdb_put", "body", 5, 3},
	{"prom_write", "body", 4, 3},
	{"splunk_hec", "body", 3, 2},
	{"otlp_logs", "body", 6, 4},
	{"otlp_traces", "body", 2, 1},
	{"loki_push", "body", 2, 2},
	{"flush", "none", 2, 1},
	{"rotate", "none", 2, 1},
	{"mflush", "none", 2, 1},
	{"shutdown", "none", 0, 1}, // always the last step of a case: the flushes of ShutdownSiglensServer
}

var opByName = func() map[string]opSpec {
	m := map[string]opSpec{}
	for _, o := range opSpecs {
		m[o.Name] = o
	}
	return m
}()

var weightedOps = func() []string {
	var out []string
	for _, o := range opSpecs {
		for i := 0; i < o.Weight; i++ {
			out = append(out, o.Name)
		}
	}
	return out
}()

func genC19(t *rapid.T) *c19Case {
	p := newPicker(t)
	n := 2 + p.pick("nSteps", 6)
	ops := weightedOps
	if only := os.Getenv("C19_OPS"); only != "" { // development aid: restrict the operations drawn
		ops = nil
		for _, o := range weightedOps {
			if strings.Contains(","+only+",", ","+o+",") {
				ops = append(ops, o)
			}
		}
	}
	primary := genName(p)
	cs := &c19Case{}
	for i := 0; i < n; i++ {
		op := p.str("op", ops)
		st := step{Op: op, Enc: "-"}
		spec := opByName[op]
		if spec.Carrier != "none" {
			if p.pick("reuse", 10) < 5 {
				st.Name = primary // the same name flows through create / read / delete operations
			} else {
				st.Name = genName(p)
			}
			if spec.Carrier == "path" {
				st.Enc = p.str("enc", pathEncs)
			}
			st.V = p.pick("v", 8)
			if p.pick("orgVariant", 10) == 0 {
				st.Org = []int64{7, -1, 9223372036854775807, -9223372036854775808}[p.pick("org", 4)]
			}
		}
		cs.Steps = append(cs.Steps, st)
	}
	return cs
}

// ---- request construction -------------------------------------------------------------------------

type httpReq struct {
	Server string
	Method string
	Path   string // already encoded as it goes on the request line
	CT     string
	Hdr    map[string]string
	Body   []byte
}

func (r *httpReq) raw(org int64) []byte {
	var b bytes.Buffer
	fmt.Fprintf(&b, "%s %s HTTP/1.1\r\nHost: c19.local\r\nConnection: close\r\n", r.Method, r.Path)
	if org != 0 {
		fmt.Fprintf(&b, "%s: %d\r\n", orgHeader, org)
	}
	if r.CT != "" {
		fmt.Fprintf(&b, "Content-Type: %s\r\n", r.CT)
	}
	for _, k := range pt.SortedKeys(r.Hdr) {
		fmt.Fprintf(&b, "%s: %s\r\n", k, r.Hdr[k])
	}
	if len(r.Body) > 0 || r.Method == "POST" || r.Method == "PUT" {
		fmt.Fprintf(&b, "Content-Length: %d\r\n", len(r.Body))
	}
	b.WriteString("\r\n")
	b.Write(r.Body)
	return b.Bytes()
}

func jstr(s string) string {
	// JSON string with every byte of s preserved where possible: invalid UTF-8 cannot be expressed in
	// JSON text portably, so it is written raw (siglens' parsers get exactly these bytes)
	var sb strings.Builder
	sb.WriteByte('"')
	for i := 0; i < len(s); i++ {
		c := s[i]
		switch {
		case c == '"' || c == '\\':
			sb.WriteByte('\\')
			sb.WriteByte(c)
		case c < 0x20:
			fmt.Fprintf(&sb, "\\u%04x", c)
		default:
			sb.WriteByte(c)
		}
	}
	sb.WriteByte('"')
	return sb.String()
}

const (
	tsMs  = 1700000000000
	tsSec = 1700000000
)

const uploadMarker = "C19UPLOADEDCONTENT"

// requests builds the HTTP request(s) of one step. name is the concrete name.
func requests(st step, name string) []httpReq {
	p := encodeForPath(st.Enc, name)
	jsonCT := "application/json"
	q := "query"
	switch st.Op {
	case "lookup_upload":
		var body bytes.Buffer
		w := multipart.NewWriter(&body)
		_ = w.WriteField("name", name)
		if st.V&1 != 0 {
			_ = w.WriteField("overwrite", "true")
		}
		fn := "up.csv"
		if st.V&2 != 0 {
			fn = "up.csv.gz"
		}
		fw, _ := w.CreateFormFile("file", fn)
		_, _ = fw.Write([]byte("k,v\n" + uploadMarker + ",1\n"))
		_ = w.Close()
		return []httpReq{{Server: q, Method: "POST", Path: "/api/lookup-upload", CT: w.FormDataContentType(), Body: body.Bytes()}}
	case "lookup_get":
		return []httpReq{{Server: q, Method: "GET", Path: "/api/lookup-files/" + p}}
	case "lookup_delete":
		return []httpReq{{Server: q, Method: "DELETE", Path: "/api/lookup-files/" + p}}
	case "lookup_list":
		return []httpReq{{Server: q, Method: "GET", Path: "/api/lookup-files"}}
	case "bulk":
		srv := q
		if st.V&1 != 0 {
			srv = "ingest"
		}
		action := "index"
		if st.V&2 != 0 {
			action = "create"
		}
		body := fmt.Sprintf("{%q:{\"_index\":%s}}\n{\"a\":1,\"msg\":\"c19 doc\",\"timestamp\":%d}\n", action, jstr(name), tsMs)
		if st.V&4 != 0 { // one request with several batches: harmless index, the name, harmless index again
			ok := fmt.Sprintf("{%q:{\"_index\":\"c19bulkmix\"}}\n{\"a\":2,\"msg\":\"c19 mixed\",\"timestamp\":%d}\n", action, tsMs)
			body = ok + body + body + ok
		}
		return []httpReq{{Server: srv, Method: "POST", Path: "/elastic/_bulk", CT: jsonCT, Body: []byte(body)}}
	case "doc_index":
		path := "/elastic/" + p + "/_doc"
		method := "POST"
		if st.V&1 != 0 {
			path += "/" + p
			if st.V&2 != 0 {
				method = "PUT"
			}
		}
		return []httpReq{{Server: "ingest", Method: method, Path: path, CT: jsonCT, Body: []byte(fmt.Sprintf(`{"a":1,"msg":"c19 single","timestamp":%d}`, tsMs))}}
	case "doc_create": // the other single-document routes of the ingest server (ES 7 layout)
		method, verb := "PUT", "_create"
		switch st.V % 3 {
		case 1:
			method = "POST"
		case 2:
			method, verb = "POST", "_update"
		}
		return []httpReq{{Server: "ingest", Method: method, Path: "/elastic/" + p + "/" + verb + "/" + p, CT: jsonCT,
			Body: []byte(fmt.Sprintf(`{"a":1,"msg":"c19 single %s","timestamp":%d}`, verb, tsMs))}}
	case "put_mapping": // the other registrations of ProcessPutIndex on the ingest server
		mapping := []byte(`{"mappings":{"properties":{"a":{"type":"long"}}}}`)
		switch st.V % 3 {
		case 1:
			return []httpReq{{Server: "ingest", Method: "PUT", Path: "/elastic/" + p + "/_mapping/" + p, CT: jsonCT, Body: mapping}}
		case 2:
			return []httpReq{{Server: "ingest", Method: "HEAD", Path: "/elastic/" + p}}
		}
		return []httpReq{{Server: "ingest", Method: "PUT", Path: "/elastic/" + p + "/_mapping", CT: jsonCT, Body: mapping}}
	case "put_index":
		srv := q
		if st.V&1 != 0 {
			srv = "ingest"
		}
		return []httpReq{{Server: srv, Method: "PUT", Path: "/elastic/" + p, CT: jsonCT, Body: []byte(`{"mappings":{"properties":{"a":{"type":"long"}}}}`)}}
	case "delete_index":
		if st.V&1 != 0 {
			return []httpReq{{Server: q, Method: "POST", Path: "/api/deleteIndex/" + p}}
		}
		return []httpReq{{Server: q, Method: "DELETE", Path: "/elastic/" + p}}
	case "head_index":
		return []httpReq{{Server: q, Method: "HEAD", Path: "/elastic/" + p}}
	case "es_search":
		if st.V&1 != 0 { // the name as scroll id
			body := fmt.Sprintf(`{"scroll_id":%s,"query":{"match_all":{}}}`, jstr(name))
			return []httpReq{{Server: q, Method: "POST", Path: "/elastic/c19idx/_search?scroll=1m", CT: jsonCT, Body: []byte(body)}}
		}
		path := "/elastic/" + p + "/_search"
		if st.V&2 != 0 {
			path += "?scroll=1m"
		}
		return []httpReq{{Server: q, Method: "POST", Path: path, CT: jsonCT, Body: []byte(`{"query":{"match_all":{}}}`)}}
	case "es_getdoc":
		return []httpReq{{Server: q, Method: "GET", Path: "/elastic/" + p + "/_doc/" + p}}
	case "alias_post":
		action := "add"
		if st.V&2 != 0 {
			action = "remove"
		}
		idx, al := jstr(name), jstr("c19alias")
		if st.V&1 != 0 {
			idx, al = jstr("c19idx"), jstr(name)
		}
		body := fmt.Sprintf(`{"actions":[{%q:{"index":%s,"alias":%s}}]}`, action, idx, al)
		return []httpReq{{Server: q, Method: "POST", Path: "/elastic/_aliases", CT: jsonCT, Body: []byte(body)}}
	case "alias_put":
		if st.V&1 != 0 {
			return []httpReq{{Server: q, Method: "PUT", Path: "/elastic/c19idx/_alias/" + p}}
		}
		return []httpReq{{Server: q, Method: "PUT", Path: "/elastic/" + p + "/_alias/c19alias"}}
	case "alias_get":
		if st.V&1 != 0 {
			return []httpReq{{Server: q, Method: "GET", Path: "/elastic/_alias/" + p}}
		}
		return []httpReq{{Server: q, Method: "GET", Path: "/elastic/" + p + "/_alias/c19alias"}}
	case "alias_list":
		return []httpReq{{Server: q, Method: "GET", Path: "/elastic/_aliases"}}
	case "search_spl":
		text, index := "", "*"
		switch st.V & 3 {
		case 0:
			text = "| inputlookup " + name
		case 1:
			text = `| inputlookup "` + name + `"`
		case 2:
			text = "* | inputlookup append=true " + name
		default:
			text, index = "*", name
		}
		body := fmt.Sprintf(`{"searchText":%s,"indexName":%s,"startEpoch":%d,"endEpoch":%d,"queryLanguage":"Splunk QL"}`,
			jstr(text), jstr(index), tsMs-3600000, tsMs+3600000)
		return []httpReq{{Server: q, Method: "POST", Path: "/api/search", CT: jsonCT, Body: []byte(body)}}
	case "usq_save":
		body := fmt.Sprintf(`{"queryName":%s,"searchText":"*","indexName":"c19idx","queryLanguage":"Splunk QL"}`, jstr(name))
		return []httpReq{{Server: q, Method: "POST", Path: "/api/usersavedqueries/save", CT: jsonCT, Body: []byte(body)}}
	case "usq_get":
		return []httpReq{{Server: q, Method: "GET", Path: "/api/usersavedqueries/" + p}}
	case "usq_delete":
		return []httpReq{{Server: q, Method: "GET", Path: "/api/usersavedqueries/deleteone/" + p}}
	case "usq_all":
		return []httpReq{{Server: q, Method: "GET", Path: "/api/usersavedqueries/getall"}}
	case "dash_create":
		body := fmt.Sprintf(`{"name":%s,"description":"c19","parentId":"root-folder"}`, jstr(name))
		if st.V&1 != 0 {
			body = fmt.Sprintf(`{"name":"c19dash","description":"c19","parentId":%s}`, jstr(name))
		}
		return []httpReq{{Server: q, Method: "POST", Path: "/api/dashboards/create", CT: jsonCT, Body: []byte(body)}}
	case "dash_get":
		return []httpReq{{Server: q, Method: "GET", Path: "/api/dashboards/" + p}}
	case "dash_update":
		body := fmt.Sprintf(`{"id":%s,"details":{"name":"c19dash2","description":"x","panels":[],"folder":{"id":"root-folder"}}}`, jstr(name))
		if st.V&1 != 0 {
			body = fmt.Sprintf(`{"id":%s,"details":{"name":%s,"description":"x","panels":[],"folder":{"id":%s}}}`, jstr(name), jstr(name), jstr(name))
		}
		return []httpReq{{Server: q, Method: "POST", Path: "/api/dashboards/update", CT: jsonCT, Body: []byte(body)}}
	case "dash_delete":
		return []httpReq{{Server: q, Method: "GET", Path: "/api/dashboards/delete/" + p}}
	case "dash_fav":
		return []httpReq{{Server: q, Method: "PUT", Path: "/api/dashboards/favorite/" + p}}
	case "dash_list":
		return []httpReq{{Server: q, Method: "GET", Path: "/api/dashboards/list"}}
	case "folder_create":
		body := fmt.Sprintf(`{"name":%s,"parentId":"root-folder"}`, jstr(name))
		if st.V&1 != 0 {
			body = fmt.Sprintf(`{"name":"c19folder","parentId":%s}`, jstr(name))
		}
		return []httpReq{{Server: q, Method: "POST", Path: "/api/dashboards/folders/create", CT: jsonCT, Body: []byte(body)}}
	case "folder_get":
		return []httpReq{{Server: q, Method: "GET", Path: "/api/dashboards/folders/" + p}}
	case "folder_put":
		return []httpReq{{Server: q, Method: "PUT", Path: "/api/dashboards/folders/" + p, CT: jsonCT, Body: []byte(fmt.Sprintf(`{"name":%s}`, jstr(name)))}}
	case "folder_delete":
		return []httpReq{{Server: q, Method: "DELETE", Path: "/api/dashboards/folders/" + p}}
	case "folder_count":
		return []httpReq{{Server: q, Method: "GET", Path: "/api/dashboards/folders/" + p + "/count"}}
	case "otsdb_put":
		metric, tk, tv := "c19.metric", "host", "h1"
		switch st.V % 3 {
		case 0:
			metric = name
		case 1:
			tk = name
		default:
			tv = name
		}
		body := fmt.Sprintf(`[{"metric":%s,"timestamp":%d,"value":1.5,"tags":{%s:%s,"dc":"x"}}]`, jstr(metric), tsSec, jstr(tk), jstr(tv))
		return []httpReq{{Server: "ingest", Method: "POST", Path: "/otsdb/api/put", CT: jsonCT, Body: []byte(body)}}
	case "prom_write":
		metric, lk, lv := "c19_metric", "host", "h1"
		switch st.V % 3 {
		case 0:
			metric = name
		case 1:
			lk = name
		default:
			lv = name
		}
		wr := &prompb.WriteRequest{Timeseries: []prompb.TimeSeries{{
			Labels:  []prompb.Label{{Name: "__name__", Value: metric}, {Name: lk, Value: lv}, {Name: "dc", Value: "x"}},
			Samples: []prompb.Sample{{Value: 2.5, Timestamp: tsMs}},
		}}}
		pb, err := wr.Marshal()
		if err != nil {
			return nil
		}
		return []httpReq{{Server: "ingest", Method: "POST", Path: "/promql/api/v1/write", CT: "application/x-protobuf",
			Hdr: map[string]string{"Content-Encoding": "snappy", "X-Prometheus-Remote-Write-Version": "0.1.0"}, Body: snappy.Encode(nil, pb)}}
	case "splunk_hec":
		body := fmt.Sprintf(`{"index":%s,"event":{"a":1,"msg":"c19 hec"},"time":%d}`, jstr(name), tsSec)
		if st.V&1 != 0 { // several events in one request: harmless index first, then the name (two batches)
			body = fmt.Sprintf(`{"index":"c19hecmix","event":{"a":2,"msg":"c19 hec mixed"},"time":%d}`, tsSec) + "\n" + body + body
		}
		return []httpReq{{Server: "ingest", Method: "POST", Path: "/services/collector/event", CT: jsonCT, Body: []byte(body)}}
	case "otlp_logs":
		return []httpReq{otlpLogsRequest(st, name)}
	case "otlp_traces":
		return []httpReq{otlpTracesRequest(name)}
	case "loki_push":
		return []httpReq{lokiPushRequest(st, name)}
	}
	return nil
}

// ---- known findings ----------------------------------------------------------------------------

// knownClass returns the id of the open known finding whose input predicate covers the step, or "".
// A covered step is not executed (excluded); every other operation x name keeps being searched.
func knownClass(st step, name string) string {
	for _, k := range knownPredicates {
		if pt.KnownFindingOpen(k.id) && k.pred(st, name) {
			return k.id
		}
	}
	return ""
}

type knownPred struct {
	id   string
	pred func(st step, name string) bool
}

// climbsRaw: the name as given has a ".." path element.
func climbsRaw(name string) bool {
	for _, el := range strings.Split(name, "/") {
		if el == ".." {
			return true
		}
	}
	return false
}

var knownPredicates = []knownPred{
	// tags-tree files are created at <tagsTreeDir>+<tag key> (metrics/tagstree.go getTagsTreeFileName)
	{"C19-metrics-tagkey-path", func(st step, name string) bool {
		return (st.Op == "otsdb_put" || st.Op == "prom_write") && st.V%3 == 1 && climbsRaw(name)
	}},
}

// ---- the check ------------------------------------------------------------------------------------

func statusClass(s int) string {
	switch {
	case s == 0:
		return "noanswer"
	case s == 599:
		return "panic"
	default:
		return fmt.Sprintf("%dxx", s/100)
	}
}

type execCtx struct {
	c    *sut.Client
	sb   *sandbox
	o    *pt.Obs
	hist []string
	// ids handed out by the server in this case: a name may refer to them as {DASHID} / {FOLDERID}
	// (dashboards and folders can only be addressed by server-generated ids)
	dashID, folderID string
}

func (x *execCtx) learnIDs(st step, res *httpResult) {
	if res.Status != 200 {
		return
	}
	switch st.Op {
	case "dash_create":
		var m map[string]string
		if json.Unmarshal(res.Body, &m) == nil && len(m) == 1 {
			for id := range m {
				x.dashID = id
			}
		}
	case "folder_create":
		var m map[string]string
		if json.Unmarshal(res.Body, &m) == nil && m["id"] != "" {
			x.folderID = m["id"]
		}
	}
}

func short(s string, n int) string {
	if len(s) > n {
		return s[:n] + fmt.Sprintf("...(%d bytes)", len(s))
	}
	return s
}

func (x *execCtx) describe(i int, st step, name string) string {
	return fmt.Sprintf("step %d: op=%s v=%d enc=%s org=%d name=%s", i, st.Op, st.V, st.Enc, st.Org, short(strconv.QuoteToASCII(name), 300))
}

// errDied marks a step during which the server process ended. That is not what this property is
// about (crashes belong to the robustness properties): the sandbox is still compared once more and
// the case ends there.
var errDied = errors.New("worker died")

func workerTrouble(c *sut.Client, what string, err error) error {
	if errors.Is(err, sut.ErrWorkerDied) {
		return errDied
	}
	return pt.Inconclusivef("%s: %v", what, err)
}

// runStep executes one step and returns the response bodies to scan.
func (x *execCtx) runStep(i int, st step, name string) (bodies [][]byte, reached bool, err error) {
	switch st.Op {
	case "flush":
		if e := x.c.Flush(); e != nil {
			return nil, false, workerTrouble(x.c, "flush", e)
		}
		return nil, false, nil
	case "rotate":
		if e := x.c.Rotate(); e != nil {
			return nil, false, workerTrouble(x.c, "rotate", e)
		}
		return nil, false, nil
	case "mflush":
		if e := x.c.Call(&sut.Req{Op: "c19mflush"}, nil); e != nil {
			return nil, false, workerTrouble(x.c, "mflush", e)
		}
		return nil, false, nil
	case "shutdown":
		if e := x.c.Call(&sut.Req{Op: "c19shutdown"}, nil); e != nil {
			return nil, false, workerTrouble(x.c, "shutdown", e)
		}
		return nil, false, nil
	}
	for _, r := range requests(st, name) {
		var res httpResult
		args := map[string]string{"server": r.Server}
		if r.Method == "HEAD" {
			args["head"] = "1"
		}
		if e := x.c.Call(&sut.Req{Op: "c19http", Args: args, Body: r.raw(st.Org)}, &res); e != nil {
			return nil, reached, workerTrouble(x.c, "http "+r.Method+" "+short(r.Path, 120), e)
		}
		sc := statusClass(res.Status)
		x.o.Class("status:" + sc)
		if res.Routed >= 0 {
			reached = true
			x.o.Class("routed:" + st.Op)
			if st.Name.Class == "benign" && res.Status >= 200 && res.Status < 300 {
				x.o.Class("benign_ok:" + st.Op)
			}
		} else {
			x.o.Class("unrouted:" + st.Op)
		}
		if res.Panic != "" {
			x.o.Class("handler_panic:" + st.Op)
		}
		x.learnIDs(st, &res)
		x.hist = append(x.hist, fmt.Sprintf("    -> %s %s => status=%d routed=%v body=%s", r.Method, short(strconv.QuoteToASCII(r.Path), 200), res.Status,
			res.Routed >= 0, short(strconv.QuoteToASCII(string(res.Body)), 200)))
		bodies = append(bodies, res.Body)
	}
	return bodies, reached, nil
}

// C19_SURVEY=1 is a development aid: violations are counted per operation (classes
// survey_read:<op>, survey_write:<op>) instead of failing, so that one run lists every operation
// that escapes. It is never set by the driver.
var survey = os.Getenv("C19_SURVEY") == "1"
var surveySeen = map[string]bool{}

func surveyNote(o *pt.Obs, kind string, st step, what string, hist []string) {
	key := kind + ":" + st.Op + ":" + st.Name.Class
	o.Class("survey_" + kind + ":" + st.Op)
	o.Class("survey_" + key)
	if !surveySeen[key] {
		surveySeen[key] = true
		n := len(hist)
		from := n - 4
		if from < 0 {
			from = 0
		}
		fmt.Fprintf(os.Stderr, "SURVEY %s\n   %s\n   %s\n", key, short(what, 400), strings.Join(hist[from:], "\n   "))
	}
}

var routeCheckOnce sync.Once
var routeCheckErr error

func checkC19(cs *c19Case, o *pt.Obs) error {
	routeCheckOnce.Do(func() { routeCheckErr = verifyRouteMirror() })
	if routeCheckErr != nil {
		return pt.Inconclusivef("route mirror is out of date: %v", routeCheckErr)
	}
	root := filepath.Dir(pt.NewDataDir())
	defer os.RemoveAll(root)
	sb, err := newSandbox(root)
	if err != nil {
		return pt.Inconclusivef("sandbox: %v", err)
	}
	// generous command timeout: a flush after hundreds of distinct (harmless) index names writes
	// hundreds of segments and took > 60 s on a heavily loaded machine
	opts := sut.Options{DataDir: sb.DataDir, Cwd: sb.Cwd, Features: []string{"stores"}, Timeout: 4 * time.Minute}
	return pt.WithWorker(opts, func(c *sut.Client) error {
		x := &execCtx{c: c, sb: sb, o: o}
		base, err := sb.snap()
		if err != nil {
			return pt.Inconclusivef("snapshot: %v", err)
		}
		steps := append([]step{}, cs.Steps...)
		// deferred effects (segment and tags-tree files are written at flush / rotation)
		steps = append(steps, step{Op: "flush", Enc: "-"}, step{Op: "mflush", Enc: "-"}, step{Op: "rotate", Enc: "-"},
			step{Op: "shutdown", Enc: "-"})
		for i, st := range steps {
			name := st.Name.value(sb.Root)
			name = strings.ReplaceAll(strings.ReplaceAll(name, "{DASHID}", x.dashID), "{FOLDERID}", x.folderID)
			spec := opByName[st.Op]
			o.Class("op:" + st.Op)
			if spec.Carrier != "none" {
				o.Class("name:" + st.Name.Class)
				if st.Org != 0 {
					o.Class("org_variant")
				}
			}
			x.hist = append(x.hist, x.describe(i, st, name))
			if spec.Carrier != "none" {
				if id := knownClass(st, name); id != "" {
					o.Known(id)
					x.hist = append(x.hist, "    (excluded: open known finding "+id+")")
					continue
				}
			}
			t0 := time.Now()
			bodies, reached, err := x.runStep(i, st, name)
			o.Count("ms:"+st.Op, time.Since(t0).Milliseconds()) // cost accounting only, never part of a verdict
			died := false
			if err == errDied {
				died = true
				o.Class("worker_died:" + st.Op)
				x.hist = append(x.hist, "    (the server process died during this step: "+short(pt.CrashDetail(c), 600)+")")
				// not a C19 verdict; left in the log for whoever looks after the robustness properties
				fmt.Fprintf(os.Stderr, "C19 NOTE worker died (no verdict):\n%s\n%s\n", strings.Join(x.hist, "\n"), short(pt.CrashDetail(c), 4000))
			} else if err != nil {
				return err
			}
			if reached && spec.Carrier != "none" && hostile(name) {
				o.Class("reach:" + st.Op)
				o.Class("reachname:" + st.Name.Class)
				o.NonTrivial() // at once: a case that ends in a violation counts as well
			}
			// (1) read escape: sentinel content in a response
			for _, b := range bodies {
				if files := sb.leaked(b); len(files) > 0 {
					if survey {
						surveyNote(o, "read", st, fmt.Sprintf("%v", files), x.hist)
						continue
					}
					return fmt.Errorf("READ ESCAPE: the response contains the content of %v (files outside the data directory, sandbox root %s)\n%s",
						files, sb.Root, strings.Join(x.hist, "\n"))
				}
			}
			// (2) write / delete escape: anything changed outside the data and log directories
			after, err := sb.snap()
			if err != nil {
				return pt.Inconclusivef("snapshot: %v", err)
			}
			if d := diffSnap(base, after, 25); len(d) > 0 {
				if survey {
					surveyNote(o, "write", st, strings.Join(d, "; "), x.hist)
					base = after
					continue
				}
				return fmt.Errorf("WRITE ESCAPE: files outside the data directory (%s) and log directory changed:\n  %s\nhistory (paths are relative to the sandbox root %s):\n%s",
					strings.TrimPrefix(sb.DataDir, sb.Root+"/"), strings.Join(d, "\n  "), sb.Root, strings.Join(x.hist, "\n"))
			}
			if died {
				break
			}
		}
		o.Count("steps", int64(len(cs.Steps)))
		return nil
	})
}

func TestC19(t *testing.T) { pt.RunProp(t, "C19", genC19, checkC19) }
