package c19

import (
	"os"
	"strings"
	"testing"

	"verifharness/pt"
)

// TestC19Matrix — systematic part: every name-carrying operation x every request variant x every way
// of placing a name into a URL path x `../` chains of every length 1..maxChain x the typical targets
// (existing files with and without the extension the operation appends, a new file), each as a
// plain chain and behind a harmless first element (x/../..). rapid may miss one (operation, chain length, encoding) combination in a quick run; this
// enumeration does not. One case = one (operation, variant, encoding) with all chain lengths and
// targets in sequence against one worker; the oracle is the same as in TestC19 (checkC19).

func matrixTails() []string {
	// "secret" matters for operations that append an extension: secret.csv and secret.json exist
	t := []string{"secret.csv", "pwn-target.json", "pwnnew", "secret"}
	if pt.Thorough() {
		t = append(t, "secret.json", "pwn-target.csv", "pwnnew.csv", "pwnnew.json", "keep", "sib/secret.csv", "keep/")
	}
	return t
}

// forms of one climbing name with n ".." elements
func matrixForms(n int, tail string) []nameSpec {
	out := []nameSpec{
		mkName("chain", strings.Repeat("../", n)+tail),
		mkName("midchain", "x/"+strings.Repeat("../", n+1)+tail), // passes a check that only looks at the prefix
	}
	if pt.Thorough() {
		out = append(out,
			mkName("chain_enc", strings.Repeat("..%2f", n)+tail),
			mkName("chain_enc", strings.Repeat("%2e%2e%2f", n)+tail),
			mkName("nul", strings.Repeat("../", n)+tail+"\x00"),
			mkName("lookalike", strings.Repeat("..\\", n)+tail),
		)
	}
	return out
}

func matrixCases() []*c19Case {
	var out []*c19Case
	for _, spec := range opSpecs {
		if spec.Carrier == "none" {
			continue
		}
		if only := os.Getenv("C19_OPS"); only != "" && !strings.Contains(","+only+",", ","+spec.Name+",") {
			continue // development aid, never set by the driver
		}
		encs := []string{"-"}
		if spec.Carrier == "path" {
			encs = pathEncs
		}
		for v := 0; v < spec.NV; v++ {
			for _, enc := range encs {
				cs := &c19Case{}
				// a harmless name first, after creating what it refers to: shows that the request template
				// itself is accepted (class benign_ok:<op>), i.e. a hostile name is the only reason to fail
				benign := "c19name"
				setup := func(op, name string) {
					e := "-"
					if opByName[op].Carrier == "path" {
						e = "raw"
					}
					cs.Steps = append(cs.Steps, step{Op: op, Name: mkName("benign", name), Enc: e})
				}
				switch spec.Name {
				case "lookup_get", "lookup_delete":
					benign = "c19name.csv"
					setup("lookup_upload", benign)
				case "usq_get", "usq_delete":
					setup("usq_save", benign)
				case "dash_get", "dash_update", "dash_delete", "dash_fav":
					setup("dash_create", "c19dashsetup")
					benign = "{DASHID}"
				case "folder_get", "folder_put", "folder_delete", "folder_count":
					setup("folder_create", "c19foldersetup")
					benign = "{FOLDERID}"
				case "head_index", "delete_index", "es_search", "es_getdoc", "alias_post", "alias_put", "alias_get":
					setup("put_index", benign)
				}
				cs.Steps = append(cs.Steps, step{Op: spec.Name, Name: mkName("benign", benign), Enc: enc, V: v})
				for n := 1; n <= maxChain; n++ {
					for _, tail := range matrixTails() {
						for _, nm := range matrixForms(n, tail) {
							if strings.Count(nm.Q, "..") > maxChain+1 {
								continue
							}
							cs.Steps = append(cs.Steps, step{Op: spec.Name, Name: nm, Enc: enc, V: v})
						}
					}
					// deferred effects of this chain length become visible here
					switch spec.Name {
					case "bulk", "doc_index", "doc_create", "splunk_hec", "otlp_logs", "otlp_traces", "loki_push":
						cs.Steps = append(cs.Steps, step{Op: "flush", Enc: "-"})
					case "otsdb_put", "prom_write":
						cs.Steps = append(cs.Steps, step{Op: "mflush", Enc: "-"})
					}
				}
				out = append(out, cs)
			}
		}
	}
	return out
}

func TestC19Matrix(t *testing.T) {
	all := matrixCases()
	shard, shards := pt.Shard()
	var mine []*c19Case
	for i, c := range all {
		if i%shards == shard {
			mine = append(mine, c)
		}
	}
	pt.RunCases(t, "C19", func(i int) (*c19Case, bool) {
		if i >= len(mine) {
			return nil, false
		}
		return mine[i], true
	}, checkC19)
}

// TestC19MatrixSize prints the size of the enumeration (used to fill checks.d/C19.json).
func TestC19MatrixSize(t *testing.T) {
	all := matrixCases()
	steps := 0
	for _, c := range all {
		steps += len(c.Steps)
	}
	t.Logf("matrix: %d cases, %d steps (tier %s)", len(all), steps, pt.Tier())
}
