package c19

// Request builders for the ingest routes whose index name comes out of the payload rather than the
// URL: OTLP logs (resource attribute siglensIndexName), and — as guards, their index name is fixed in
// the pinned tree — OTLP traces and Loki push, where the name is put into every field a client
// controls (resource / scope / span attributes, service name, stream labels as key and value).

import (
	"bytes"
	"compress/gzip"
	"fmt"
	"strings"
	"unicode/utf8"

	"github.com/golang/snappy"
	collogpb "go.opentelemetry.io/proto/otlp/collector/logs/v1"
	coltracepb "go.opentelemetry.io/proto/otlp/collector/trace/v1"
	commonpb "go.opentelemetry.io/proto/otlp/common/v1"
	logpb "go.opentelemetry.io/proto/otlp/logs/v1"
	resourcepb "go.opentelemetry.io/proto/otlp/resource/v1"
	tracepb "go.opentelemetry.io/proto/otlp/trace/v1"
	"google.golang.org/protobuf/proto"
	"google.golang.org/protobuf/types/known/timestamppb"

	lokilog "github.com/siglens/siglens/pkg/integrations/loki/log"
)

// the attribute siglens' OTLP log ingestion takes the index name from (pkg/otlp/logs.go,
// indexNameAttributeKey — unexported, verified against the pinned source by verifyRouteMirror)
const otlpIndexAttr = "siglensIndexName"

// marshalWithName marshals build(name). google.golang.org/protobuf refuses to marshal a string
// field that is not valid UTF-8; such a name is put into the wire bytes after marshalling a
// placeholder of the same length (the length prefixes stay right), so the server gets exactly
// these bytes and decides itself.
func marshalWithName(name string, build func(n string) proto.Message) []byte {
	if utf8.ValidString(name) {
		b, err := proto.Marshal(build(name))
		if err != nil {
			return nil
		}
		return b
	}
	ph := strings.Repeat("\x7f", len(name))
	b, err := proto.Marshal(build(ph))
	if err != nil {
		return nil
	}
	return bytes.ReplaceAll(b, []byte(ph), []byte(name))
}

func strAttr(k, v string) *commonpb.KeyValue {
	return &commonpb.KeyValue{Key: k, Value: &commonpb.AnyValue{Value: &commonpb.AnyValue_StringValue{StringValue: v}}}
}

func otlpRecord(msg string, attrs ...*commonpb.KeyValue) *logpb.LogRecord {
	return &logpb.LogRecord{
		TimeUnixNano:   uint64(tsMs) * 1_000_000,
		SeverityText:   "INFO",
		SeverityNumber: logpb.SeverityNumber_SEVERITY_NUMBER_INFO,
		Body:           &commonpb.AnyValue{Value: &commonpb.AnyValue_StringValue{StringValue: msg}},
		Attributes:     attrs,
	}
}

func otlpResourceLogs(index string, resAttrs []*commonpb.KeyValue, recs ...*logpb.LogRecord) *logpb.ResourceLogs {
	attrs := append([]*commonpb.KeyValue{strAttr("service.name", "c19svc")}, resAttrs...)
	attrs = append(attrs, strAttr(otlpIndexAttr, index))
	return &logpb.ResourceLogs{
		Resource:  &resourcepb.Resource{Attributes: attrs},
		ScopeLogs: []*logpb.ScopeLogs{{Scope: &commonpb.InstrumentationScope{Name: "c19scope"}, LogRecords: recs}},
	}
}

func gz(b []byte) []byte {
	var out bytes.Buffer
	w := gzip.NewWriter(&out)
	_, _ = w.Write(b)
	_ = w.Close()
	return out.Bytes()
}

// otlpLogsRequest: POST /otlp/v1/logs. Variants: 0 one resource whose siglensIndexName is the name;
// 1 the same, gzip-compressed; 2 three resources in one export — harmless index, the name (two
// records), harmless index — i.e. the partial-success path; 3 the attribute twice (harmless value
// first, the name last: the last one wins in extractResourceInfo) with the name also in record and
// scope attributes and the body.
func otlpLogsRequest(st step, name string) httpReq {
	v := st.V & 3
	pb := marshalWithName(name, func(n string) proto.Message {
		req := &collogpb.ExportLogsServiceRequest{}
		switch v {
		case 2:
			req.ResourceLogs = []*logpb.ResourceLogs{
				otlpResourceLogs("c19otlpmix", nil, otlpRecord("c19 otlp before")),
				otlpResourceLogs(n, nil, otlpRecord("c19 otlp hostile 1"), otlpRecord("c19 otlp hostile 2")),
				otlpResourceLogs("c19otlpmix", nil, otlpRecord("c19 otlp after")),
			}
		case 3:
			rl := otlpResourceLogs(n, []*commonpb.KeyValue{strAttr(otlpIndexAttr, "c19otlpfirst")},
				otlpRecord(n, strAttr(otlpIndexAttr, n), strAttr("index", n)))
			rl.ScopeLogs[0].Scope.Attributes = []*commonpb.KeyValue{strAttr(otlpIndexAttr, n)}
			req.ResourceLogs = []*logpb.ResourceLogs{rl}
		default:
			req.ResourceLogs = []*logpb.ResourceLogs{otlpResourceLogs(n, nil, otlpRecord("c19 otlp log"))}
		}
		return req
	})
	r := httpReq{Server: "ingest", Method: "POST", Path: "/otlp/v1/logs", CT: "application/x-protobuf", Body: pb}
	if v == 1 {
		r.Hdr = map[string]string{"Content-Encoding": "gzip"}
		r.Body = gz(pb)
	}
	return r
}

// otlpTracesRequest: POST /otlp/v1/traces. The pinned tree stores spans in the fixed index "traces";
// the name goes wherever a client could hope to influence it: siglensIndexName on resource, scope and
// span, the service name, scope name and span name.
func otlpTracesRequest(name string) httpReq {
	pb := marshalWithName(name, func(n string) proto.Message {
		return &coltracepb.ExportTraceServiceRequest{ResourceSpans: []*tracepb.ResourceSpans{{
			Resource: &resourcepb.Resource{Attributes: []*commonpb.KeyValue{strAttr("service.name", n), strAttr(otlpIndexAttr, n), strAttr("index", n)}},
			ScopeSpans: []*tracepb.ScopeSpans{{
				Scope: &commonpb.InstrumentationScope{Name: n, Attributes: []*commonpb.KeyValue{strAttr(otlpIndexAttr, n)}},
				Spans: []*tracepb.Span{{
					TraceId:           []byte("c19traceid000001"),
					SpanId:            []byte("c19span1"),
					Name:              n,
					Kind:              tracepb.Span_SPAN_KIND_SERVER,
					StartTimeUnixNano: uint64(tsMs) * 1_000_000,
					EndTimeUnixNano:   uint64(tsMs)*1_000_000 + 5_000_000,
					Attributes:        []*commonpb.KeyValue{strAttr(otlpIndexAttr, n), strAttr("index", n)},
				}},
			}},
		}}}
	})
	return httpReq{Server: "ingest", Method: "POST", Path: "/otlp/v1/traces", CT: "application/x-protobuf", Body: pb}
}

// lokiPushRequest: POST /loki/api/v1/push (index fixed to "loki-index" in the pinned tree). The name
// is a stream label value under the keys a client would try (index, _index, siglensIndexName) and a
// label key itself. Variant 0 JSON streams, variant 1 the promtail protobuf (snappy).
func lokiPushRequest(st step, name string) httpReq {
	if st.V&1 == 0 {
		body := fmt.Sprintf(`{"streams":[{"stream":{"job":"c19","index":%s,"_index":%s,%s:%s,%s:"c19 label value"},"values":[["%d","c19 loki line",{"index":%s}]]}]}`,
			jstr(name), jstr(name), jstr(otlpIndexAttr), jstr(name), jstr(name), int64(tsMs)*1_000_000, jstr(name))
		return httpReq{Server: "ingest", Method: "POST", Path: "/loki/api/v1/push", CT: "application/json", Body: []byte(body)}
	}
	lq := func(s string) string {
		return `"` + strings.ReplaceAll(strings.ReplaceAll(s, `\`, `\\`), `"`, `\"`) + `"`
	}
	pb := marshalWithName(name, func(n string) proto.Message {
		labels := fmt.Sprintf(`{job="c19",index=%s,_index=%s,%s=%s,%s="c19 label value"}`, lq(n), lq(n), otlpIndexAttr, lq(n), n)
		return &lokilog.PushRequest{Streams: []*lokilog.StreamAdapter{{
			Labels:  labels,
			Entries: []*lokilog.EntryAdapter{{Timestamp: &timestamppb.Timestamp{Seconds: tsSec}, Line: "c19 promtail line"}},
		}}}
	})
	return httpReq{Server: "ingest", Method: "POST", Path: "/loki/api/v1/push", CT: "application/x-protobuf", Body: snappy.Encode(nil, pb)}
}
