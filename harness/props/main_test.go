package props

import (
	"os"
	"testing"

	"verifharness/sut"
)

func TestMain(m *testing.M) {
	if os.Getenv(sut.WorkerEnv) == "1" {
		sut.RunWorker()
		return
	}
	os.Exit(m.Run())
}
