package c05

import (
	"fmt"
	"math"
	"sort"
	"strconv"
	"strings"
	"testing"

	"pgregory.net/rapid"

	"verifharness/gen"
	"verifharness/lq"
	"verifharness/model"
	"verifharness/pt"
	"verifharness/sut"
)

// C05 — result order, limits and pagination.

type sortKey struct {
	Field string `json:"field"`
	Desc  bool   `json:"desc"`
	Mode  string `json:"mode"` // "" (auto) | num | str | auto
}

type c05Query struct {
	Kind  string    `json:"kind"`            // default | head | tail | sort | page
	N     int       `json:"n"`               // size / head / tail / sort limit / page size
	Keys  []sortKey `json:"keys"`            // sort
	UseHd bool      `json:"useHd"`           // sort … | head N instead of size
	SortN bool      `json:"sortN,omitempty"` // the limit is the sort command's own: sort N keys / sort limit=N keys
}

type c05Case struct {
	DS      *gen.Dataset `json:"ds"`
	Layout  gen.Layout   `json:"layout"`
	Queries []c05Query   `json:"queries"`
}

// closeFloats: values closer than 1e-4 to each other (the statement names them explicitly).
var closeFloats = []float64{1.00001, 1.00002, 1.00003, 0.99999, 1, 2.00005, 2.0001, -3.00001, -3.00002, 1e-5, 2e-5, 0}

func genC05(t *rapid.T) *c05Case {
	// timestamps built for overlap: out-of-order arrival, ties, interleaving block ranges
	profiles := []gen.Profile{gen.PInt, gen.PFloat, gen.PLowStr, gen.PHighStr, gen.PMixNumStr, gen.PMixIntFloat, gen.PBool, gen.PNumText, gen.PUInt}
	ds := gen.GenDataset(t, gen.DatasetOpts{MinEvents: 2, MaxEvents: pt.Scale(60, 400), MaxCols: 4, Profiles: profiles, NullPct: 5, NoNested: true})
	// one dedicated column with values closer than 1e-4
	if rapid.Bool().Draw(t, "closeCol") {
		for _, e := range ds.Events {
			if rapid.IntRange(0, 9).Draw(t, "hasClose") < 8 {
				v := model.Float(rapid.SampledFrom(closeFloats).Draw(t, "closeVal"))
				e.Doc.Obj = append(e.Doc.Obj, model.Field{Name: "cl", Node: model.LeafNode(v)})
			}
		}
	}
	cs := &c05Case{DS: ds, Layout: gen.GenLayout(t, len(ds.Events))}
	if rapid.IntRange(0, 2).Draw(t, "staggered") > 0 {
		// block- and segment-level time windows that overlap and nest
		gen.StaggerTimestamps(t, ds.Events, cs.Layout)
	}
	names, _ := gen.FilterColumns(ds)
	n := len(ds.Events)
	nq := rapid.IntRange(2, pt.Scale(6, 10)).Draw(t, "nQueries")
	for i := 0; i < nq; i++ {
		var q c05Query
		switch rapid.IntRange(0, 6).Draw(t, "qKind") {
		case 0:
			q = c05Query{Kind: "default", N: rapid.IntRange(1, n+2).Draw(t, "size")}
		case 1:
			q = c05Query{Kind: "head", N: rapid.IntRange(1, n+2).Draw(t, "head")}
		case 2:
			q = c05Query{Kind: "tail", N: rapid.IntRange(1, n+2).Draw(t, "tail")}
		case 3:
			q = c05Query{Kind: "page", N: rapid.IntRange(1, n).Draw(t, "pageSize")}
		default:
			q = c05Query{Kind: "sort", N: rapid.IntRange(1, n+2).Draw(t, "limit")}
			// three places a limit can come from: the request size, a following head, the sort command itself
			switch rapid.IntRange(0, 2).Draw(t, "limitForm") {
			case 1:
				q.UseHd = true
			case 2:
				q.SortN = true
			}
			nk := rapid.IntRange(1, 3).Draw(t, "nKeys")
			for k := 0; k < nk && len(names) > 0; k++ {
				q.Keys = append(q.Keys, sortKey{
					Field: names[rapid.IntRange(0, len(names)-1).Draw(t, "sortField")],
					Desc:  rapid.Bool().Draw(t, "desc"),
					Mode:  rapid.SampledFrom([]string{"", "", "num", "str", "auto"}).Draw(t, "mode"),
				})
			}
			if len(q.Keys) == 0 {
				q = c05Query{Kind: "default", N: n}
			}
		}
		cs.Queries = append(cs.Queries, q)
	}
	return cs
}

func (q c05Query) text() string {
	switch q.Kind {
	case "head":
		return fmt.Sprintf("* | head %d", q.N)
	case "tail":
		return fmt.Sprintf("* | tail %d", q.N)
	case "sort":
		parts := make([]string, len(q.Keys))
		for i, k := range q.Keys {
			f := k.Field
			if k.Mode != "" {
				f = k.Mode + "(" + f + ")"
			}
			if k.Desc {
				f = "-" + f
			} else if i%2 == 1 {
				f = "+" + f
			}
			parts[i] = f
		}
		s := "* | sort " + strings.Join(parts, ", ")
		if q.SortN {
			if q.N%2 == 0 {
				s = fmt.Sprintf("* | sort %d %s", q.N, strings.Join(parts, ", "))
			} else {
				s = fmt.Sprintf("* | sort limit=%d %s", q.N, strings.Join(parts, ", "))
			}
		}
		if q.UseHd {
			s += fmt.Sprintf(" | head %d", q.N)
		}
		return s
	}
	return "*"
}

// class of a value for sorting: 0 number, 1 string, 2 bool, 3 null; -1 = ambiguous (numeric text)
func sortClass(v *model.Val) int {
	if v == nil {
		return 3
	}
	switch v.K {
	case model.KInt, model.KFloat:
		return 0
	case model.KStr:
		if _, err := strconv.ParseFloat(strings.TrimSpace(v.S), 64); err == nil {
			return -1
		}
		return 1
	case model.KBool:
		return 2
	}
	return 3
}

// cmpKey compares two events under one key: -1 a before b, +1 a after b, 0 equal, 2 = not stated.
func cmpKey(a, b *model.Event, k sortKey) int {
	fa, _ := a.Flat()
	fb, _ := b.Flat()
	var va, vb *model.Val
	if v, ok := fa[k.Field]; ok {
		va = &v
	}
	if v, ok := fb[k.Field]; ok {
		vb = &v
	}
	ca, cb := sortClass(va), sortClass(vb)
	if ca != cb || ca < 0 || ca >= 2 {
		if ca == 3 && cb == 3 {
			return 0
		}
		return 2 // rank across types, numeric text, booleans, nulls: not stated
	}
	var c int
	switch ca {
	case 0:
		if k.Mode == "str" {
			// str(): the values are ordered lexicographically as text. The text of an integer is its decimal
			// form; how other numbers are rendered is not stated.
			if va.K != model.KInt || vb.K != model.KInt {
				return 2
			}
			c = strings.Compare(strconv.FormatInt(va.I, 10), strconv.FormatInt(vb.I, 10))
			if k.Desc {
				c = -c
			}
			return c
		}
		if va.K == model.KInt && vb.K == model.KInt {
			c = cmpInt(va.I, vb.I)
		} else {
			if (va.K == model.KInt && !model.ExactFloat(va.I)) || (vb.K == model.KInt && !model.ExactFloat(vb.I)) {
				return 2
			}
			x, y := va.Num(), vb.Num()
			if math.IsNaN(x) || math.IsNaN(y) {
				return 2
			}
			c = cmpFloat(x, y)
		}
	case 1:
		if k.Mode == "num" {
			return 2
		}
		c = strings.Compare(va.S, vb.S)
	}
	if k.Desc {
		c = -c
	}
	return c
}

func cmpInt(a, b int64) int {
	switch {
	case a < b:
		return -1
	case a > b:
		return 1
	}
	return 0
}
func cmpFloat(a, b float64) int {
	switch {
	case a < b:
		return -1
	case a > b:
		return 1
	}
	return 0
}

// cmpEvents compares under the full key list; 2 = not stated.
func cmpEvents(a, b *model.Event, keys []sortKey) int {
	for _, k := range keys {
		c := cmpKey(a, b, k)
		if c == 2 {
			return 2
		}
		if c != 0 {
			return c
		}
	}
	return 0
}

func checkC05(cs *c05Case, o *pt.Obs) error {
	evs := cs.DS.Events
	byVid := map[int64]*model.Event{}
	for _, e := range evs {
		byVid[e.Vid] = e
	}
	lo, hi := lq.TsBounds(evs)
	flushes, rots := cs.Layout.Blocks()
	// do block time ranges overlap?
	overlap := false
	{
		pos := 0
		var prevHi uint64
		for i, b := range cs.Layout.Batches {
			blo, bhi := lq.TsBounds(evs[pos : pos+b])
			if i > 0 && blo <= prevHi {
				overlap = true
			}
			if bhi > prevHi {
				prevHi = bhi
			}
			pos += b
		}
	}
	return pt.WithWorker(sut.Options{}, func(c *sut.Client) error {
		if err := lq.Ingest(c, "c05idx", 0, evs, cs.Layout); err != nil {
			return err
		}
		for qi, q := range cs.Queries {
			text := q.text()
			o.Class("q_" + q.Kind)
			if q.Kind == "page" {
				if err := checkPaging(c, evs, q, lo, hi, o); err != nil {
					return fmt.Errorf("query %d: %v", qi, err)
				}
				if q.N < len(evs) {
					o.NonTrivial()
				}
				continue
			}
			size := len(evs) + 10
			if q.Kind == "default" || (q.Kind == "sort" && !q.UseHd && !q.SortN) {
				size = q.N
			}
			sr, err := lq.Search(c, sut.Query{Index: "c05idx", Text: text, Start: lo - 1, End: hi + 1, Size: size})
			if err != nil {
				return fmt.Errorf("query %d: %v", qi, err)
			}
			_, order, err := lq.Vids(text, sr.Records)
			if err != nil {
				return fmt.Errorf("query %d: %v", qi, err)
			}
			var got []*model.Event
			for _, v := range order {
				e := byVid[v]
				if e == nil {
					return fmt.Errorf("query %d %q returned unknown _vid=%d", qi, text, v)
				}
				got = append(got, e)
			}
			want := q.N
			if want > len(evs) {
				want = len(evs)
			}
			if len(got) != want {
				return fmt.Errorf("query %d %q (size %d): returned %d records, expected %d of %d matches", qi, text, size, len(got), want, len(evs))
			}
			returned := map[int64]bool{}
			for _, e := range got {
				returned[e.Vid] = true
			}
			switch q.Kind {
			case "default", "head":
				for i := 1; i < len(got); i++ {
					if got[i].Ts > got[i-1].Ts {
						return fmt.Errorf("query %d %q: not newest-first at position %d: ts %d after ts %d (vids %d,%d)", qi, text, i, got[i].Ts, got[i-1].Ts, got[i].Vid, got[i-1].Vid)
					}
				}
				if len(got) > 0 {
					oldest := got[len(got)-1].Ts
					for _, e := range evs {
						if !returned[e.Vid] && e.Ts > oldest {
							return fmt.Errorf("query %d %q: _vid=%d (ts %d) is newer than returned _vid=%d (ts %d) but was left out of the %d newest", qi, text, e.Vid, e.Ts, got[len(got)-1].Vid, oldest, len(got))
						}
					}
				}
			case "tail":
				for i := 1; i < len(got); i++ {
					if got[i].Ts < got[i-1].Ts {
						return fmt.Errorf("query %d %q: tail not oldest-first at position %d (vids %d,%d)", qi, text, i, got[i-1].Vid, got[i].Vid)
					}
				}
				if len(got) > 0 {
					newest := got[len(got)-1].Ts
					for _, e := range evs {
						if !returned[e.Vid] && e.Ts < newest {
							return fmt.Errorf("query %d %q: _vid=%d (ts %d) is older than returned _vid=%d (ts %d) but is not among the last %d", qi, text, e.Vid, e.Ts, got[len(got)-1].Vid, newest, len(got))
						}
					}
				}
			case "sort":
				for i := 1; i < len(got); i++ {
					if cmpEvents(got[i-1], got[i], q.Keys) == 1 {
						return fmt.Errorf("query %d %q: results %d and %d are out of order under the sort keys:\n  %s\n  %s", qi, text, i-1, i,
							gen.EventJSON(got[i-1], true), gen.EventJSON(got[i], true))
					}
				}
				for _, e := range evs {
					if returned[e.Vid] {
						continue
					}
					for _, r := range got {
						if cmpEvents(e, r, q.Keys) == -1 {
							return fmt.Errorf("query %d %q: limit did not take a prefix of the order: omitted %s sorts strictly before returned %s", qi, text,
								gen.EventJSON(e, true), gen.EventJSON(r, true))
						}
					}
				}
			}
			if q.N < len(evs) && (flushes >= 2 || rots >= 1) && overlap {
				o.NonTrivial()
				o.Class("limit_over_overlapping_blocks")
			}
			if q.Kind == "sort" && len(q.Keys) >= 2 {
				o.Class("sort_multikey")
			}
			if q.Kind == "sort" && q.SortN {
				o.Class("sort_own_limit")
				if q.N < len(evs) && flushes >= 3 && cs.Layout.GoMaxProcs >= 2 && cs.Layout.GoMaxProcs < flushes {
					o.Class("sort_own_limit_parallel_chains")
				}
			}
		}
		return nil
	})
}

func checkPaging(c *sut.Client, evs []*model.Event, q c05Query, lo, hi uint64, o *pt.Obs) error {
	tsCount := map[uint64]int{}
	byVid := map[int64]*model.Event{}
	for _, e := range evs {
		tsCount[e.Ts]++
		byVid[e.Vid] = e
	}
	seen := map[int64]int{}
	var allTs []uint64
	for from := 0; from < len(evs)+q.N; from += q.N {
		sr, err := lq.Search(c, sut.Query{Index: "c05idx", Text: "*", Start: lo - 1, End: hi + 1, Size: q.N, From: from})
		if err != nil {
			return err
		}
		if len(sr.Records) == 0 {
			break
		}
		if len(sr.Records) > q.N {
			return fmt.Errorf("paging with size %d: page from=%d has %d records", q.N, from, len(sr.Records))
		}
		for _, r := range sr.Records {
			v, ok := r["_vid"].Int()
			if !ok || byVid[v] == nil {
				return fmt.Errorf("paging with size %d: page from=%d has a record without a known _vid: %v", q.N, from, r)
			}
			seen[v]++
			ts, _ := r["timestamp"].Float()
			if uint64(ts) != byVid[v].Ts {
				return fmt.Errorf("paging: _vid=%d returned with timestamp %v, sent %d", v, ts, byVid[v].Ts)
			}
			allTs = append(allTs, uint64(ts))
		}
	}
	// The concatenation of the pages must be the newest-first sequence of all timestamps.
	want := make([]uint64, 0, len(evs))
	for _, e := range evs {
		want = append(want, e.Ts)
	}
	sort.Slice(want, func(i, j int) bool { return want[i] > want[j] })
	if len(allTs) != len(want) {
		return fmt.Errorf("paging with size %d: pages hold %d records in total, %d events match", q.N, len(allTs), len(want))
	}
	for i := range want {
		if allTs[i] != want[i] {
			return fmt.Errorf("paging with size %d: position %d over all pages has timestamp %d, the newest-first sequence has %d", q.N, i, allTs[i], want[i])
		}
	}
	for _, e := range evs {
		if seen[e.Vid] == 1 {
			continue
		}
		// known finding C05-paging-ties: events sharing a timestamp have no stable order between
		// the executions that produce the individual pages
		if tsCount[e.Ts] >= 2 && pt.KnownFindingOpen("C05-paging-ties") {
			o.Known("C05-paging-ties")
			continue
		}
		return fmt.Errorf("paging with size %d: _vid=%d (ts %d, unique timestamp) was returned %d times over all pages", q.N, e.Vid, e.Ts, seen[e.Vid])
	}
	return nil
}

func TestC05(t *testing.T) { pt.RunProp(t, "C05", genC05, checkC05) }
