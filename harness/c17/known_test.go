package c17

// knownParsePredicates: input classes of sub-check (a) listed as open findings in
// /verif/known_findings.jsonl. Each predicate is stated over the input only.
type knownParse struct {
	id    string
	lang  map[string]bool
	match func(c *parseCase) bool
}

var knownParsePredicates = []knownParse{}
