package c17

import (
	"regexp"

	"verifharness/pt"
)

// knownParsePredicates: input classes of sub-check (a) listed as open findings in
// /verif/known_findings.jsonl. Each predicate is stated over the input only.
type knownParse struct {
	id    string
	lang  map[string]bool
	match func(c *parseCase) bool
}

var knownParsePredicates = []knownParse{}

// knownExecFinding: query classes of sub-check (b) listed as open findings.
type knownExec struct {
	id    string
	match func(q execQuery) bool
}

var zeroSpanTimechart = regexp.MustCompile(`(?i)timechart[^|]*\bspan\s*=\s*0+[a-z]+`)

var knownExecPredicates = []knownExec{
	// C17-timechart-zero-span: an SPL timechart whose span option is zero with a time unit
	// (span=0s: bucket width 0 ms) divides by zero on a block-search worker goroutine: the process exits.
	{id: "C17-timechart-zero-span", match: func(q execQuery) bool { return q.Lang == "spl" && zeroSpanTimechart.MatchString(q.Text) }},
}

func knownExecFinding(q execQuery) string {
	for _, k := range knownExecPredicates {
		if pt.KnownFindingOpen(k.id) && k.match(q) {
			return k.id
		}
	}
	return ""
}
