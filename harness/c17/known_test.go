package c17

import "verifharness/pt"

// knownParsePredicates: input classes of sub-check (a) listed as open findings in
// /verif/known_findings.jsonl. Each predicate is stated over the input only.
type knownParse struct {
	id    string
	lang  map[string]bool
	match func(c *parseCase) bool
}

var knownParsePredicates = []knownParse{}

// knownExecFinding: query classes of sub-check (b) listed as open findings.
type knownExec struct {
	id    string
	match func(q execQuery) bool
}

var knownExecPredicates = []knownExec{}

func knownExecFinding(q execQuery) string {
	for _, k := range knownExecPredicates {
		if pt.KnownFindingOpen(k.id) && k.match(q) {
			return k.id
		}
	}
	return ""
}
