package c17

import (
	"crypto/sha256"
	"encoding/hex"
	"encoding/json"
	"fmt"
	"go/ast"
	"go/parser"
	"go/token"
	"os"
	"os/exec"
	"path/filepath"
	"regexp"
	"strconv"
	"strings"
	"testing"
	"time"

	"verifharness/pt"
)

// Native fuzz targets (thorough tier only). They share the oracle of the rapid path
// (checkParse): no panic, same text => same plan, bounded CPU time. Seeds are the queries of the
// repository's own tests plus the hostile constants.

// fuzzSeeds: the queries of the repository's own tests plus the short hostile constants (the long
// ones are enumerated by TestC17Hostile; they only slow mutation down).
func fuzzSeeds(lang string) []string {
	out := append([]string(nil), seeds()[seedLang(lang)]...)
	for _, s := range hostileFor(lang) {
		if len(s) <= 600 {
			out = append(out, s)
		}
	}
	return out
}

func fuzzTarget(f *testing.F, lang string) {
	for _, s := range fuzzSeeds(lang) {
		f.Add([]byte(s))
	}
	f.Fuzz(func(t *testing.T, b []byte) {
		if len(b) > maxInput {
			t.Skip()
		}
		c := newParseCase(lang, "fuzz", b)
		err := checkParse(c, &pt.Obs{})
		if err == nil {
			return
		}
		if _, ok := err.(*pt.Inconclusive); ok {
			t.Skip(err.Error())
		}
		t.Fatalf("C17 violated: %v", err)
	})
}

func FuzzC17Spl(f *testing.F)    { fuzzTarget(f, "spl") }
func FuzzC17PipeQL(f *testing.F) { fuzzTarget(f, "pipeql") }
func FuzzC17Sql(f *testing.F)    { fuzzTarget(f, "sql") }
func FuzzC17Dsl(f *testing.F)    { fuzzTarget(f, "dsl") }
func FuzzC17DslOD(f *testing.F)  { fuzzTarget(f, "dslod") }
func FuzzC17Promql(f *testing.F) { fuzzTarget(f, "promql") }

var fuzzTargets = []struct{ name, lang string }{
	{"FuzzC17Spl", "spl"}, {"FuzzC17PipeQL", "pipeql"}, {"FuzzC17Sql", "sql"}, {"FuzzC17Dsl", "dsl"}, {"FuzzC17DslOD", "dslod"}, {"FuzzC17Promql", "promql"},
}

var failingInputRe = regexp.MustCompile(`Failing input written to (testdata/fuzz/[^\s]+)`)

// decodeFuzzFile reads a Go fuzz corpus file ("go test fuzz v1" + one []byte("...") line).
func decodeFuzzFile(path string) ([]byte, error) {
	raw, err := os.ReadFile(path)
	if err != nil {
		return nil, err
	}
	lines := strings.Split(strings.TrimSpace(string(raw)), "\n")
	if len(lines) < 2 || !strings.HasPrefix(lines[0], "go test fuzz v1") {
		return nil, fmt.Errorf("not a fuzz corpus file")
	}
	expr, err := parser.ParseExpr(lines[1])
	if err != nil {
		return nil, err
	}
	call, ok := expr.(*ast.CallExpr)
	if !ok || len(call.Args) != 1 {
		return nil, fmt.Errorf("unexpected corpus value %q", lines[1])
	}
	lit, ok := call.Args[0].(*ast.BasicLit)
	if !ok || lit.Kind != token.STRING {
		return nil, fmt.Errorf("unexpected corpus literal %q", lines[1])
	}
	s, err := strconv.Unquote(lit.Value)
	if err != nil {
		return nil, err
	}
	return []byte(s), nil
}

func harnessDir() string {
	if d := os.Getenv("C17_HARNESS_DIR"); d != "" {
		return d
	}
	return "/verif/harness"
}

// TestC17NativeFuzz runs `go test -fuzz` for every target for a fixed time (thorough tier). A
// crasher is converted into a replay envelope: saved to corpus/C17/ for the rapid/replay path
// (TestC17Parse) and reported as this test's failing case.
func TestC17NativeFuzz(t *testing.T) {
	var pending []*parseCase
	if os.Getenv("VERIF_REPLAY") == "" {
		if !pt.Thorough() && os.Getenv("C17_FUZZ_FORCE") == "" {
			t.Skip("native fuzzing runs in the thorough tier only")
		}
		fuzzSecs := 100
		if v, err := strconv.Atoi(os.Getenv("C17_FUZZTIME_S")); err == nil && v > 0 {
			fuzzSecs = v
		}
		for _, tg := range fuzzTargets {
			if only := os.Getenv("C17_FUZZ_TARGETS"); only != "" && !strings.Contains(only, tg.name) {
				continue
			}
			// `go test -fuzz` aborts without a corpus file when a seed fails: check the seeds here first
			seedFailed := false
			for _, sd := range fuzzSeeds(tg.lang) {
				c := newParseCase(tg.lang, "seed", []byte(sd))
				if cerr := checkParse(c, &pt.Obs{}); cerr != nil {
					if _, inc := cerr.(*pt.Inconclusive); !inc {
						pending = append(pending, c)
						seedFailed = true
						break
					}
				}
			}
			if seedFailed {
				t.Logf("%s: a seed already violates the oracle, target not fuzzed", tg.name)
				continue
			}
			deadline := time.Now().Add(time.Duration(fuzzSecs) * time.Second)
			// A target stops at its first crasher. Crashers that the rapid-path oracle does not
			// confirm (e.g. the fuzz engine's own 10 s wall-clock limit on a loaded machine) do
			// not end the session: fuzzing resumes for the remaining time.
			for round := 0; round < 8; round++ {
				remaining := int(time.Until(deadline).Seconds())
				if remaining < 15 {
					break
				}
				args := []string{"test", "-vet=off", "-tags", "verif", "-run", "^$", "-fuzz", "^" + tg.name + "$", "-fuzztime", fmt.Sprintf("%ds", remaining)}
				if extra := os.Getenv("C17_GOFLAGS_EXTRA"); extra != "" {
					args = append(args, strings.Fields(extra)...)
				}
				args = append(args, "./c17")
				cmd := exec.Command("go", args...)
				cmd.Dir = harnessDir()
				cmd.Env = append(os.Environ(), "GOFLAGS=-mod=mod", "GOPROXY=off", "GOSUMDB=off", "GOTOOLCHAIN=local", "VERIF_STATS=", "VERIF_REPLAY_OUT=", "VERIF_REPLAY=")
				t0 := time.Now()
				out, err := cmd.CombinedOutput()
				t.Logf("%s round %d: %v in %v; %s", tg.name, round, err, time.Since(t0).Round(time.Second), lastLines(string(out), 2))
				if err == nil {
					break
				}
				m := failingInputRe.FindStringSubmatch(string(out))
				if m == nil {
					t.Logf("%s ended with %v but without a failing input:\n%s", tg.name, err, lastLines(string(out), 25))
					break
				}
				crasher := filepath.Join(harnessDir(), "c17", m[1])
				b, derr := decodeFuzzFile(crasher)
				_ = os.RemoveAll(filepath.Join(harnessDir(), "c17", "testdata", "fuzz", tg.name))
				if derr != nil {
					t.Logf("%s: cannot decode crasher %s: %v", tg.name, crasher, derr)
					break
				}
				c := newParseCase(tg.lang, "fuzz", b)
				if cerr := checkParse(c, &pt.Obs{}); cerr != nil {
					if _, inc := cerr.(*pt.Inconclusive); !inc {
						pending = append(pending, c)
						break
					}
				}
				t.Logf("%s: crasher %s not confirmed by the oracle, resuming", tg.name, quoteInput(b))
			}
		}
		_ = os.Remove(filepath.Join(harnessDir(), "c17", "testdata", "fuzz"))
		_ = os.Remove(filepath.Join(harnessDir(), "c17", "testdata"))
	}
	// Re-evaluate every crasher with the rapid-path oracle; a confirmed one fails this test and
	// is also saved as a regression case for TestC17Parse.
	pt.RunCases(t, "C17", func(i int) (*parseCase, bool) {
		if i >= len(pending) {
			return nil, false
		}
		return pending[i], true
	}, func(c *parseCase, o *pt.Obs) error {
		err := checkParse(c, o)
		if err != nil {
			if _, inc := err.(*pt.Inconclusive); !inc && os.Getenv("VERIF_REPLAY") == "" {
				saveCorpusCase(c, err.Error())
			}
		}
		return err
	})
}

func saveCorpusCase(c *parseCase, msg string) {
	cj, _ := json.Marshal(c)
	env := map[string]interface{}{"property": "C17", "test": "TestC17Parse", "msg": msg, "case": json.RawMessage(cj)}
	eb, _ := json.MarshalIndent(env, "", " ")
	h := sha256.Sum256(cj)
	dir := os.Getenv("C17_CORPUS_DIR")
	if dir == "" {
		dir = "/verif/corpus/C17"
	}
	_ = os.MkdirAll(dir, 0o755)
	_ = os.WriteFile(filepath.Join(dir, fmt.Sprintf("fuzz-%s-%s.json", c.Lang, hex.EncodeToString(h[:6]))), eb, 0o644)
}

func lastLines(s string, n int) string {
	lines := strings.Split(strings.TrimSpace(s), "\n")
	if len(lines) > n {
		lines = lines[len(lines)-n:]
	}
	return strings.Join(lines, "\n")
}
