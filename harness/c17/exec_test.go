package c17

import (
	"errors"
	"fmt"
	"math"
	"os"
	"strings"
	"testing"
	"time"

	"pgregory.net/rapid"

	"verifharness/gen"
	"verifharness/model"
	"verifharness/pt"
	"verifharness/sut"
)

// C17 (b) — execution: a valid query over stored data ends in a response or an error; the server
// process stays up, the call returns, and no entry of the query stays in the running/waiting
// tables afterwards.

type execQuery struct {
	Lang string `json:"lang"` // spl | sql | pipeql | dsl
	Text string `json:"text"`
}

type execCase struct {
	DS      *gen.Dataset `json:"ds"`
	Rotate  bool         `json:"rotate"`  // rotate the segment after the flush
	Unflush int          `json:"unflush"` // number of trailing events left unflushed (in the WIP buffer)
	Queries []execQuery  `json:"queries"`
}

const execIndex = "c17idx"

func datasetFields(ds *gen.Dataset) *fieldPool {
	// (_vid is left out: the SPL grammar does not take field names with a leading underscore in
	// most positions, which would only lower the share of executed queries)
	fp := &fieldPool{Fields: []string{"timestamp"}}
	for _, c := range ds.Columns {
		fp.Fields = append(fp.Fields, c.Name())
	}
	// one column that does not exist
	fp.Fields = append(fp.Fields, "nosuchcol")
	return fp
}

// execSeedQueries: query shapes that crashed the server process on the pinned tree (found by
// this check or reported by the builders of other checks); they stay in the mix so that the
// classes keep being exercised with generated datasets.
var execSeedQueries = []string{
	"* | sort 0 %s", "* | sort limit=0 +num(%s)", "* | top 0 %s by %s useother=true", "* | rare 0 %s useother=true", "* | transaction %s",
	"| gentimes start=-3 increment=1h | stats latest(%s) by %s", "| gentimes start=-1 increment=6h | sort limit=1000 -auto(%s)",
	`* | stats estdc(eval(relative_time(1700000000, "@w"))) as total by %s`, `* | makemv delim="," %s | mvexpand %s | sort -nosuchcol`,
	`* | fillnull value="q" %s | makemv delim="," %s | mvexpand %s | dedup nosuchcol %s keepempty=true consecutive=true`,
	`* | rex field=%s "(?<first>\\w+)" | sort %s`, "* | streamstats window=0 count by %s", "* | timechart span=0s count by %s", "* | bin span=0 %s",
	"* | head 0", "* | tail 0", "* | dedup 0 %s", "* | mvexpand %s limit=0", "* | eval x=mvrange(0, 100000000) | head 1", "* | eval x=pow(10, 400) | stats sum(x)",
	"* | stats p0(%s), p100(%s), perc66.6(%s)", "* | stats values(%s) as v | mvexpand v | stats count by v", "* | eventcount index=* summarize=false",
	"* | append [ search * ] | stats count", "* | format maxresults=0", "* | tojson | spath", "* | fields - *", "* | rename * AS x*",
}

func genExecCase(t *rapid.T) *execCase {
	ds := gen.GenDataset(t, gen.DatasetOpts{MinEvents: 1, MaxEvents: pt.Scale(40, 120), MaxCols: 6, NullPct: 5})
	c := &execCase{DS: ds, Rotate: rapid.IntRange(0, 3).Draw(t, "rotate") == 0}
	if len(ds.Events) > 2 && rapid.IntRange(0, 3).Draw(t, "unflushed") == 0 {
		c.Unflush = rapid.IntRange(1, len(ds.Events)/2).Draw(t, "nUnflushed")
	}
	fp := datasetFields(ds)
	n := rapid.IntRange(3, 8).Draw(t, "nQueries")
	for i := 0; i < n; i++ {
		switch k := rapid.IntRange(0, 21).Draw(t, "qLang"); {
		case k >= 20:
			tpl := rapid.SampledFrom(execSeedQueries).Draw(t, "seedQuery")
			q := tpl
			for strings.Contains(q, "%s") {
				q = strings.Replace(q, "%s", rapid.SampledFrom(fp.Fields).Draw(t, "seedField"), 1)
			}
			c.Queries = append(c.Queries, execQuery{"spl", q})
		case k < 15:
			c.Queries = append(c.Queries, execQuery{"spl", genSPL(t, fp, false, true)})
		case k < 17:
			c.Queries = append(c.Queries, execQuery{"sql", genSQL(t, fp)})
		case k < 18:
			c.Queries = append(c.Queries, execQuery{"pipeql", genPipeQL(t, fp)})
		default:
			c.Queries = append(c.Queries, execQuery{"dsl", string(genDSL(t, fp))})
		}
	}
	return c
}

func tsBounds(evs []*model.Event) (uint64, uint64) {
	lo, hi := uint64(math.MaxUint64), uint64(0)
	for _, e := range evs {
		if e.Ts < lo {
			lo = e.Ts
		}
		if e.Ts > hi {
			hi = e.Ts
		}
	}
	return lo - 1, hi + 1
}

// commandsOf lists the SPL commands used by a query (for the class histogram).
func commandsOf(q string) []string {
	var out []string
	for i, seg := range strings.Split(q, "|") {
		f := strings.Fields(seg)
		if len(f) == 0 {
			continue
		}
		w := strings.ToLower(f[0])
		if i == 0 {
			if w != "search" {
				continue
			}
		}
		for _, k := range splCommandKinds {
			if w == k {
				out = append(out, w)
				break
			}
		}
		if w == "gentimes" {
			out = append(out, w)
		}
	}
	return out
}

const execCallTimeout = 60 * time.Second

func ingest(c *sut.Client, ds *gen.Dataset, unflush int, rotate bool) error {
	evs := ds.Events
	nFlush := len(evs) - unflush
	if nFlush > 0 {
		br, err := c.Bulk(0, gen.BulkBody(execIndex, evs[:nFlush]))
		if err != nil {
			return err
		}
		if br.Err != "" {
			return pt.Inconclusivef("bulk not accepted: %s", br.Err)
		}
		if err := c.Flush(); err != nil {
			return err
		}
		if rotate {
			if err := c.Rotate(); err != nil {
				return err
			}
		}
	}
	if unflush > 0 {
		br, err := c.Bulk(0, gen.BulkBody(execIndex, evs[nFlush:]))
		if err != nil {
			return err
		}
		if br.Err != "" {
			return pt.Inconclusivef("bulk not accepted: %s", br.Err)
		}
	}
	return nil
}

func checkExec(cs *execCase, o *pt.Obs) error {
	lo, hi := tsBounds(cs.DS.Events)
	if cs.Rotate {
		o.Class("rotated")
	}
	if cs.Unflush > 0 {
		o.Class("unflushed_tail")
	}
	return pt.WithWorker(sut.Options{Timeout: execCallTimeout}, func(c *sut.Client) error {
		if err := ingest(c, cs.DS, cs.Unflush, cs.Rotate); err != nil {
			var inc *pt.Inconclusive
			if errors.As(err, &inc) {
				return err
			}
			if errors.Is(err, sut.ErrWorkerDied) {
				// a crash while ingesting is not this property's observation
				return pt.Inconclusivef("worker died during ingest: %s", pt.CrashDetail(c))
			}
			return pt.Inconclusivef("ingest: %v", err)
		}
		// baseline of the exact goroutine oracle: everything alive after ingest, before the first query
		if err := c.Call(&sut.Req{Op: "c17_gbase"}, nil); err != nil {
			return pt.Inconclusivef("goroutine baseline: %v", err)
		}
		answered, rejected := 0, 0
		for qi, q := range cs.Queries {
			o.Class("lang_" + q.Lang)
			if q.Lang == "spl" {
				for _, cmd := range commandsOf(q.Text) {
					o.Class("cmd_" + cmd)
				}
			}
			if id := knownExecFinding(q); id != "" {
				o.Known(id)
				o.Class("excluded_known_finding")
				continue
			}
			outcome, err := runExecQuery(c, q, lo, hi)
			where := fmt.Sprintf("query #%d (%s) %q", qi, q.Lang, q.Text)
			if surveyFile() != "" && err != nil {
				kind, site := "transport", err.Error()
				if errors.Is(err, sut.ErrWorkerDied) {
					kind, site = "crash", panicSite(c.Stderr())
				} else if errors.Is(err, sut.ErrTimeout) {
					kind, site = "hang", ""
				} else if oe := (*sut.OpError)(nil); errors.As(err, &oe) && strings.HasPrefix(oe.Msg, "PANIC:") {
					kind, site = "reqpanic", panicSite(oe.Msg)
				}
				surveyRecord(&parseCase{Lang: q.Lang, B: []byte(q.Text)}, kind, site)
				return nil
			}
			switch {
			case errors.Is(err, sut.ErrWorkerDied):
				return fmt.Errorf("server process exited while executing %s: %s", where, pt.CrashDetail(c))
			case errors.Is(err, sut.ErrTimeout):
				return fmt.Errorf("no answer within %v (hang) for %s; goroutines at the time:\n%s", execCallTimeout, where, hangSummary(c.Stderr()))
			case err != nil:
				var oe *sut.OpError
				if errors.As(err, &oe) && strings.HasPrefix(oe.Msg, "PANIC:") {
					return fmt.Errorf("panic on the request goroutine (nothing recovers it in the server: the process would exit) for %s: %s", where, clipStr(oe.Msg, 2500))
				}
				return pt.Inconclusivef("%s: transport error %v", where, err)
			}
			if outcome == "response" {
				answered++
				o.Class("answered")
			} else {
				rejected++
				o.Class("rejected_with_error")
				if os.Getenv("C17_DEBUG") != "" {
					fmt.Fprintf(os.Stderr, "REJECT\t%s\t%s\t%s\n", q.Lang, clipStr(strings.ReplaceAll(outcome, "\n", " "), 300), q.Text)
				}
			}
			// the call has returned: its qid must be gone from both tables
			var st qStats
			if err := c.Call(&sut.Req{Op: "c17_qstats"}, &st); err != nil {
				if errors.Is(err, sut.ErrWorkerDied) {
					return fmt.Errorf("server process exited right after %s: %s", where, pt.CrashDetail(c))
				}
				return pt.Inconclusivef("qstats: %v", err)
			}
			if st.Active != 0 || st.Waiting != 0 {
				// give a straggler a moment, then decide
				time.Sleep(300 * time.Millisecond)
				_ = c.Call(&sut.Req{Op: "c17_qstats"}, &st)
				if st.Active != 0 || st.Waiting != 0 {
					return fmt.Errorf("after %s returned (%s) the tables still list active=%d waiting=%d queries (no other query is in flight)",
						where, outcome, st.Active, st.Waiting)
				}
			}
		}
		// every query of the case has ended (answered or rejected): no goroutine of any of them may remain.
		// A goroutine counts as staying when it was started after the baseline, has a frame in a per-query
		// package and sits in a waiting state with an unchanged stack for leakStableMs (3 s); goroutines that
		// still move when the budget ends are residual work, not a verdict.
		var gl gLeakRep
		if err := c.Call(&sut.Req{Op: "c17_gleak", Size: 20_000}, &gl); err != nil {
			if errors.Is(err, sut.ErrWorkerDied) {
				return fmt.Errorf("server process exited after the last query of the case had returned: %s", pt.CrashDetail(c))
			}
			return pt.Inconclusivef("goroutine check: %v", err)
		}
		o.Count("exec_goroutine_dumps_compared", int64(gl.Dumps))
		if len(gl.Leaked) > 0 {
			var sb strings.Builder
			for i, lg := range gl.Leaked {
				if i >= 6 {
					fmt.Fprintf(&sb, "... and %d more\n", len(gl.Leaked)-i)
					break
				}
				fmt.Fprintf(&sb, "--- goroutine %d [%s], unchanged for %d ms, in %s:\n%s\n", lg.ID, lg.State, lg.StableMs, lg.Func, clipStr(lg.Stack, 1500))
			}
			var qs []string
			for _, q := range cs.Queries {
				qs = append(qs, fmt.Sprintf("(%s) %q", q.Lang, clipStr(q.Text, 200)))
			}
			return fmt.Errorf("%d goroutine(s) of finished queries stay after all %d queries of the case were answered or rejected (%d answered, %d rejected):\n%squeries: %s",
				len(gl.Leaked), len(cs.Queries), answered, rejected, sb.String(), strings.Join(qs, " ; "))
		}
		if gl.Moving > 0 {
			o.Count("exec_goroutines_still_moving_at_budget", int64(gl.Moving))
		}
		if answered > 0 {
			o.NonTrivial()
		}
		o.Count("queries", int64(len(cs.Queries)))
		o.Count("answered", int64(answered))
		o.Count("rejected", int64(rejected))
		return nil
	})
}

func clipStr(s string, n int) string {
	if len(s) > n {
		return s[:n] + "…"
	}
	return s
}

// hangSummary keeps the goroutines of the SIGQUIT dump that sit in siglens query code.
func hangSummary(stderr string) string {
	var sb strings.Builder
	n := 0
	for _, blk := range splitBlocks(stderr) {
		if strings.Contains(blk, "pkg/segment/query") || strings.Contains(blk, "pipesearch") || strings.Contains(blk, "pkg/segment.") {
			lines := splitLines(blk)
			if len(lines) > 9 {
				lines = lines[:9]
			}
			sb.WriteString(strings.Join(lines, "\n") + "\n\n")
			n++
			if n >= 6 {
				break
			}
		}
	}
	if sb.Len() == 0 {
		return clipStr(stderr, 2000)
	}
	return sb.String()
}

// runExecQuery returns "response" or "error:<text>".
func runExecQuery(c *sut.Client, q execQuery, lo, hi uint64) (string, error) {
	switch q.Lang {
	case "dsl":
		var hr sut.HTTPResult
		if err := c.Call(&sut.Req{Op: "c17_es", Index: execIndex, Body: []byte(q.Text)}, &hr); err != nil {
			return "", err
		}
		if hr.Status == 200 {
			return "response", nil
		}
		return fmt.Sprintf("error:http %d %s", hr.Status, clipStr(string(hr.Body), 200)), nil
	default:
		lang := map[string]string{"spl": "Splunk QL", "sql": "SQL", "pipeql": "Pipe QL"}[q.Lang]
		sr, err := c.Search(sut.Query{Index: execIndex, Text: q.Text, Lang: lang, Start: lo, End: hi, Size: 100})
		if err != nil {
			return "", err
		}
		if sr.Err != "" {
			return "error:" + sr.Err, nil
		}
		return "response", nil
	}
}

func TestC17Exec(t *testing.T) { pt.RunProp(t, "C17", genExecCase, checkExec) }
