package c17

import (
	"encoding/json"
	"fmt"
	"net"
	"runtime"
	"sort"
	"strings"
	"sync"
	"sync/atomic"
	"time"

	"github.com/fasthttp/websocket"
	"github.com/siglens/siglens/pkg/ast/pipesearch"
	"github.com/siglens/siglens/pkg/config"
	esreader "github.com/siglens/siglens/pkg/es/reader"
	"github.com/siglens/siglens/pkg/segment/query"
	"github.com/valyala/fasthttp"
	"github.com/valyala/fasthttp/fasthttputil"

	"verifharness/sut"
)

// Worker-side operations of C17 (the worker is this same test binary).

func init() {
	sut.RegisterOp("c17_qstats", opQStats)
	sut.RegisterOp("c17_es", opESSearch)
	sut.RegisterOp("c17_script", opScript)
	sut.RegisterOp("c17_gbase", opGBase)
	sut.RegisterOp("c17_gleak", opGLeak)
}

// ---- exact goroutine oracle for the Exec sub-check --------------------------------------------
// c17_gbase remembers every goroutine alive now (after ingest, before the first query of the case);
// c17_gleak reports the goroutines that were started since, have a frame in a per-query package and
// stay in a waiting state with an unchanged stack for leakStableMs. No query is in flight when it
// is called (the Exec check issues its queries one by one and each call has returned).

var execBaseIDs map[uint64]bool

func opGBase(req *sut.Req) (interface{}, error) {
	execBaseIDs = map[uint64]bool{}
	for _, g := range allGoroutines() {
		execBaseIDs[g.ID] = true
	}
	return len(execBaseIDs), nil
}

type gLeakRep struct {
	Leaked   []leakedGorou `json:"leaked"`
	Moving   int           `json:"moving"` // per-query goroutines still moving when the budget ended
	WaitedMs int64         `json:"waitedMs"`
	Dumps    int           `json:"dumps"`
}

func opGLeak(req *sut.Req) (interface{}, error) {
	rep := &gLeakRep{}
	if execBaseIDs == nil {
		return rep, nil
	}
	maxMs := int64(req.Size)
	if maxMs <= 0 {
		maxMs = 20_000
	}
	type seenG struct {
		first, sigSince time.Time
		sig             string
	}
	seen := map[uint64]*seenG{}
	t0 := time.Now()
	for {
		now := time.Now()
		rep.Dumps++
		var offenders []goroutineInfo
		present := map[uint64]bool{}
		for _, g := range allGoroutines() {
			if execBaseIDs[g.ID] || g.Query == "" {
				continue
			}
			offenders = append(offenders, g)
			present[g.ID] = true
			if sg := seen[g.ID]; sg == nil {
				seen[g.ID] = &seenG{first: now, sigSince: now, sig: g.Sig}
			} else if sg.sig != g.Sig {
				sg.sig, sg.sigSince = g.Sig, now
			}
		}
		for id := range seen {
			if !present[id] {
				delete(seen, id)
			}
		}
		if len(offenders) == 0 {
			break
		}
		moving := 0
		for _, g := range offenders {
			if !g.Waiting || now.Sub(seen[g.ID].sigSince) < leakStableMs*time.Millisecond {
				moving++
			}
		}
		if moving == 0 || now.Sub(t0).Milliseconds() > maxMs {
			rep.Moving = moving
			for _, g := range offenders {
				sg := seen[g.ID]
				if !g.Waiting || now.Sub(sg.sigSince) < leakStableMs*time.Millisecond || len(rep.Leaked) >= 20 {
					continue
				}
				stack := g.Text
				if len(stack) > 3000 {
					stack = stack[:3000] + "..."
				}
				rep.Leaked = append(rep.Leaked, leakedGorou{ID: g.ID, State: g.State, Func: g.Query, Waiting: g.Waiting,
					StableMs: now.Sub(sg.sigSince).Milliseconds(), SeenMs: now.Sub(sg.first).Milliseconds(), Stack: stack})
			}
			break
		}
		time.Sleep(150 * time.Millisecond)
	}
	rep.WaitedMs = time.Since(t0).Milliseconds()
	return rep, nil
}

// qStats is what the query tables look like from outside.
type qStats struct {
	Active     int    `json:"active"`  // query.GetActiveQueryCount(): admitted, not yet deleted
	Waiting    int    `json:"waiting"` // len(query.GetWaitingQueries())
	Goroutines int    `json:"goroutines"`
	MaxRunning uint64 `json:"maxRunning"`
}

func readQStats() qStats {
	return qStats{Active: query.GetActiveQueryCount(), Waiting: len(query.GetWaitingQueries()), Goroutines: countedGoroutines(),
		MaxRunning: query.MAX_RUNNING_QUERIES}
}

func opQStats(req *sut.Req) (interface{}, error) { return readQStats(), nil }

// opESSearch drives the Elasticsearch-compatible search handler with an in-memory request.
func opESSearch(req *sut.Req) (interface{}, error) {
	ctx := &fasthttp.RequestCtx{}
	ctx.Request.Header.SetMethod("POST")
	ctx.Request.SetRequestURI("/elastic/" + req.Index + "/_search")
	ctx.Request.SetBody(req.Body)
	ctx.SetUserValue("indexName", req.Index)
	esreader.ProcessSearchRequest(ctx, req.Org)
	body := ctx.Response.Body()
	if len(body) > 2048 {
		body = body[:2048]
	}
	return &sut.HTTPResult{Status: ctx.Response.StatusCode(), Body: append([]byte(nil), body...)}, nil
}

// ---- lifecycle script ------------------------------------------------------------------------

// scriptAction is one step of a lifecycle sequence; the whole sequence runs inside the worker so
// that the generated delays are not blurred by the command pipe.
type scriptAction struct {
	Kind    string `json:"kind"`              // sync | ws | burst | wsburst | cancel | delete | timeout | sleep
	Query   int    `json:"query,omitempty"`   // index into scriptReq.Queries
	N       int    `json:"n,omitempty"`       // burst size
	Target  int    `json:"target,omitempty"`  // cancel/delete: index of an earlier started query (start order)
	DelayMs int    `json:"delayMs,omitempty"` // pause before the action (sleep: the pause itself)
	// ws only: send {"state":"cancel"} this many ms after the query message; <0 = never
	CancelAfterMs int `json:"cancelAfterMs,omitempty"`
	Secs          int `json:"secs,omitempty"` // timeout: new queryTimeoutSecs
	// cancel only: the cancel runs concurrently with the following actions, this many ms from now
	AfterMs int `json:"afterMs,omitempty"`
}

type scriptReq struct {
	Index     string         `json:"index"`
	Start     uint64         `json:"start"`
	End       uint64         `json:"end"`
	Queries   []string       `json:"queries"`
	Actions   []scriptAction `json:"actions"`
	QuiesceMs int            `json:"quiesceMs"` // how long to wait for started queries to return
	SettleMs  int            `json:"settleMs"`  // how long to wait for tables/goroutines to drain afterwards
	// QuiesceMaxMs: upper bound of the wait for started queries while there still is progress
	QuiesceMaxMs int `json:"quiesceMaxMs,omitempty"`
	// SettleMaxMs: goroutines of finished queries that are still *moving* (running, or their stack
	// changes between dumps) are waited for up to this long instead of SettleMs (0 = SettleMs)
	SettleMaxMs int `json:"settleMaxMs,omitempty"`
	// ServerTimeoutSecs > 0: the whole sequence runs under this queryTimeoutSecs instead of the
	// script's base timeout. The worker was started with VERIF_QUERY_TIMEOUT_SECS, but the server
	// configuration raises anything below MIN_QUERY_TIMEOUT_SECONDS (60) to 60, so the configured
	// value is scaled down here through config.SetQueryTimeoutSecs (the variable the configuration
	// loader and the /api/config timeout handler write; setupTimeoutCancelFunc reads it per query).
	ServerTimeoutSecs int `json:"serverTimeoutSecs,omitempty"`
}

type startedQuery struct {
	Seq      int    `json:"seq"`
	Mode     string `json:"mode"` // sync | ws | burst | http
	Query    int    `json:"query"`
	Qid      uint64 `json:"qid"`
	Returned bool   `json:"returned"`
	Outcome  string `json:"outcome"` // response | error:<text> | cancelled | timeout | ws:<terminal state>
	States   string `json:"states,omitempty"`
	// the cancel request reached query.CancelQuery while the query was listed as running
	CancelWhileRunning bool  `json:"cancelWhileRunning,omitempty"`
	CancelRequested    bool  `json:"cancelRequested,omitempty"`
	StartedDuringCancl bool  `json:"startedDuringCancel,omitempty"`
	TookMs             int64 `json:"tookMs"`
}

type scriptReport struct {
	Started        []*startedQuery `json:"started"`
	Limit          uint64          `json:"limit"`
	MaxActive      int             `json:"maxActive"`
	MaxWaiting     int             `json:"maxWaiting"`
	Samples        int             `json:"samples"`
	Baseline       qStats          `json:"baseline"`
	Final          qStats          `json:"final"`
	NotReturned    int             `json:"notReturned"`
	SettleWaitedMs int64           `json:"settleWaitedMs"`
	GoroutineDump  string          `json:"goroutineDump,omitempty"`
	// exact goroutine oracle
	TimeoutSecsAtStart    int           `json:"timeoutSecsAtStart"`    // config.GetQueryTimeoutSecs() when the first query started
	ConfiguredTimeoutSecs int           `json:"configuredTimeoutSecs"` // what the server configuration had set
	BaselineDumpSize      int           `json:"baselineDumpSize"`      // goroutines in the dump taken before the first query
	DumpsCompared         int           `json:"dumpsCompared"`         // dumps taken after quiescence and compared with the baseline
	Leaked                []leakedGorou `json:"leaked,omitempty"`      // goroutines of finished queries still present in the last dump
	// Stuck: queries had not returned after QuiesceMs and then nothing moved for quiesceStuckMs
	Stuck           bool  `json:"stuck,omitempty"`
	QuiesceWaitedMs int64 `json:"quiesceWaitedMs"`
	// LeakedMoving: how many of the goroutines still present in the last dump are running/runnable
	// or changed their stack during the last leakStableMs
	LeakedMoving int `json:"leakedMoving,omitempty"`
	// Lingered: per-query function -> longest time (ms) a goroutine with that function was still
	// seen after quiescence (goroutines that went away by themselves included)
	Lingered map[string]int64 `json:"lingered,omitempty"`
	// OtherNew: goroutines in the last dump that are not in the baseline and have a siglens frame,
	// but none of a per-query package (observation only): first siglens function -> count
	OtherNew map[string]int `json:"otherNew,omitempty"`
}

// leakedGorou is a goroutine that did not exist before the first query, has a frame in a
// per-query package and is still there after every query has returned.
type leakedGorou struct {
	ID       uint64 `json:"id"`
	State    string `json:"state"`
	Func     string `json:"func"`     // first per-query function on its stack
	Waiting  bool   `json:"waiting"`  // not running/runnable in the last dump
	StableMs int64  `json:"stableMs"` // for how long state and stack have been identical
	SeenMs   int64  `json:"seenMs"`   // for how long it has been seen after quiescence
	Stack    string `json:"stack"`
}

var scriptQid uint64 = 5_000_000

var (
	wsOnce sync.Once
	wsLn   *fasthttputil.InmemoryListener
)

// wsServer serves the websocket search endpoint exactly like pipeSearchWebsocketHandler does,
// on an in-memory listener.
func wsServer() *fasthttputil.InmemoryListener {
	wsOnce.Do(func() {
		wsLn = fasthttputil.NewInmemoryListener()
		up := websocket.FastHTTPUpgrader{ReadBufferSize: 4096, WriteBufferSize: 4096, CheckOrigin: func(*fasthttp.RequestCtx) bool { return true }}
		srv := &fasthttp.Server{Handler: func(ctx *fasthttp.RequestCtx) {
			_ = up.Upgrade(ctx, func(conn *websocket.Conn) {
				defer conn.Close()
				pipesearch.ProcessPipeSearchWebsocket(conn, 0, ctx)
			})
		}}
		go func() { _ = srv.Serve(wsLn) }()
	})
	return wsLn
}

func opScript(req *sut.Req) (interface{}, error) {
	var sr scriptReq
	if err := json.Unmarshal(req.Body, &sr); err != nil {
		return nil, err
	}
	// Baseline of the exact goroutine oracle: everything alive before the first query (the
	// background loops started at initialisation, the command loop of the worker, this goroutine).
	baseIDs := map[uint64]bool{}
	for _, g := range allGoroutines() {
		baseIDs[g.ID] = true
	}
	ln := wsServer()
	// Base timeout for this sequence: a query that runs longer is timed out by the server itself,
	// so "every started query returns" is decidable well within QuiesceMs.
	configuredTimeout := config.GetQueryTimeoutSecs()
	if sr.ServerTimeoutSecs <= 0 {
		config.SetQueryTimeoutSecs(scriptBaseTimeoutSecs)
	} else if configuredTimeout != sr.ServerTimeoutSecs {
		config.SetQueryTimeoutSecs(sr.ServerTimeoutSecs)
	}
	// warm up the websocket path once so that its lazily started goroutines are part of the baseline
	runWS(ln, &sr, "*", -1, &startedQuery{})
	time.Sleep(50 * time.Millisecond)
	runtime.GC()
	rep := &scriptReport{Limit: query.MAX_RUNNING_QUERIES, Baseline: readQStats(), TimeoutSecsAtStart: config.GetQueryTimeoutSecs(),
		ConfiguredTimeoutSecs: configuredTimeout, BaselineDumpSize: len(baseIDs)}

	var mu sync.Mutex
	var wg sync.WaitGroup
	var cancelsInFlight int32
	stopSampler := make(chan struct{})
	samplerDone := make(chan struct{})
	go func() {
		defer close(samplerDone)
		for {
			select {
			case <-stopSampler:
				return
			default:
			}
			a := query.GetActiveQueryCount()
			w := len(query.GetWaitingQueries())
			mu.Lock()
			rep.Samples++
			if a > rep.MaxActive {
				rep.MaxActive = a
			}
			if w > rep.MaxWaiting {
				rep.MaxWaiting = w
			}
			mu.Unlock()
			time.Sleep(200 * time.Microsecond)
		}
	}()

	start := func(mode string, qi int, cancelAfter int) *startedQuery {
		sq := &startedQuery{Mode: mode, Query: qi, StartedDuringCancl: atomic.LoadInt32(&cancelsInFlight) > 0}
		mu.Lock()
		sq.Seq = len(rep.Started)
		rep.Started = append(rep.Started, sq)
		mu.Unlock()
		text := sr.Queries[qi%len(sr.Queries)]
		wg.Add(1)
		if mode == "ws" {
			go func() {
				defer wg.Done()
				t0 := time.Now()
				runWS(ln, &sr, text, cancelAfter, sq)
				mu.Lock()
				sq.TookMs = time.Since(t0).Milliseconds()
				sq.Returned = true
				mu.Unlock()
			}()
			return sq
		}
		if mode == "http" {
			// the entry point of POST /api/search: the handler allots the qid itself
			go func() {
				defer wg.Done()
				t0 := time.Now()
				status, body := runHTTPSearch(&sr, text)
				mu.Lock()
				defer mu.Unlock()
				sq.TookMs = time.Since(t0).Milliseconds()
				sq.Returned = true
				switch {
				case status == fasthttp.StatusOK && body == "null":
					sq.Outcome = "cancelled" // (nil, nil) of RunQueryForNewPipeline written as JSON
				case status == fasthttp.StatusOK:
					sq.Outcome = "response"
				default:
					if len(body) > 400 {
						body = body[:400]
					}
					sq.Outcome = fmt.Sprintf("error:http %d: %s", status, body)
				}
			}()
			return sq
		}
		qid := atomic.AddUint64(&scriptQid, 1)
		sq.Qid = qid
		go func() {
			defer wg.Done()
			t0 := time.Now()
			m := map[string]interface{}{"searchText": text, "indexName": sr.Index, "startEpoch": sr.Start, "endEpoch": sr.End, "queryLanguage": "Splunk QL"}
			resp, _, _, err := pipesearch.ParseAndExecutePipeRequest(m, qid, 0, time.Now(), "", nil)
			mu.Lock()
			defer mu.Unlock()
			sq.TookMs = time.Since(t0).Milliseconds()
			sq.Returned = true
			switch {
			case err != nil:
				sq.Outcome = "error:" + err.Error()
			case resp == nil:
				// RunQueryForNewPipeline returns (nil, nil) for a cancelled synchronous query
				sq.Outcome = "cancelled"
			default:
				sq.Outcome = "response"
			}
		}()
		return sq
	}

	for _, a := range sr.Actions {
		if a.DelayMs > 0 {
			time.Sleep(time.Duration(a.DelayMs) * time.Millisecond)
		}
		switch a.Kind {
		case "sync":
			start("sync", a.Query, -1)
		case "http":
			start("http", a.Query, -1)
		case "httpburst":
			for i := 0; i < a.N; i++ {
				start("http", a.Query, -1)
			}
		case "ws":
			start("ws", a.Query, a.CancelAfterMs)
		case "burst":
			for i := 0; i < a.N; i++ {
				start("burst", a.Query, -1)
			}
		case "wsburst":
			for i := 0; i < a.N; i++ {
				start("ws", a.Query, a.CancelAfterMs)
			}
		case "cancel", "delete":
			mu.Lock()
			var tq *startedQuery
			if n := len(rep.Started); n > 0 {
				tq = rep.Started[a.Target%n]
			}
			mu.Unlock()
			if tq == nil || tq.Qid == 0 {
				continue
			}
			if a.Kind == "cancel" {
				wg.Add(1)
				atomic.AddInt32(&cancelsInFlight, 1) // pending from now until CancelQuery has returned
				go func(tq *startedQuery, after int) {
					defer wg.Done()
					time.Sleep(time.Duration(after) * time.Millisecond)
					_, err := query.GetQueryStartTime(tq.Qid) // listed as running right now?
					mu.Lock()
					tq.CancelRequested = true
					if err == nil && !tq.Returned {
						tq.CancelWhileRunning = true
					}
					mu.Unlock()
					query.CancelQuery(tq.Qid)
					atomic.AddInt32(&cancelsInFlight, -1)
				}(tq, a.AfterMs)
			} else {
				// DeleteQuery is documented as a no-op for unknown qids; it is only applied to
				// queries whose caller has already returned (their entry is gone).
				mu.Lock()
				done := tq.Returned
				mu.Unlock()
				if done {
					query.DeleteQuery(tq.Qid)
				}
			}
		case "timeout":
			if a.Secs > 0 {
				config.SetQueryTimeoutSecs(a.Secs)
			}
		case "sleep":
		}
	}

	// quiescence: every started query must return. QuiesceMs is not a verdict by itself (the machine
	// may be loaded): afterwards the wait goes on for as long as there is progress - a query returns,
	// or a goroutine of a query (not in the baseline dump, frame in a per-query package) is
	// running/runnable or has changed its stack. No progress at all for quiesceStuckMs (longer than
	// any query timeout of the sequence) = stuck; progress until QuiesceMaxMs = out of time budget.
	done := make(chan struct{})
	go func() { wg.Wait(); close(done) }()
	returnedCount := func() int {
		mu.Lock()
		defer mu.Unlock()
		n := 0
		for _, sq := range rep.Started {
			if sq.Returned {
				n++
			}
		}
		return n
	}
	snapshot := func() (string, bool) {
		var sigs []string
		moving := false
		for _, g := range allGoroutines() {
			if baseIDs[g.ID] || g.Query == "" {
				continue
			}
			if !g.Waiting {
				moving = true
			}
			sigs = append(sigs, fmt.Sprintf("%d:%s", g.ID, g.Sig))
		}
		sort.Strings(sigs)
		return strings.Join(sigs, "\n"), moving
	}
	quiesceStart := time.Now()
	select {
	case <-done:
	case <-time.After(time.Duration(sr.QuiesceMs) * time.Millisecond):
		lastProgress := time.Now()
		lastRet := returnedCount()
		lastSigs, _ := snapshot()
	extended:
		for {
			select {
			case <-done:
				break extended
			case <-time.After(2 * time.Second):
			}
			now := time.Now()
			ret := returnedCount()
			sigs, moving := snapshot()
			if ret != lastRet || sigs != lastSigs || moving {
				lastProgress = now
			}
			lastRet, lastSigs = ret, sigs
			if now.Sub(lastProgress) > quiesceStuckMs*time.Millisecond {
				rep.Stuck = true
				break
			}
			if sr.QuiesceMaxMs <= 0 || now.Sub(quiesceStart) > time.Duration(sr.QuiesceMaxMs)*time.Millisecond {
				break
			}
		}
	}
	rep.QuiesceWaitedMs = time.Since(quiesceStart).Milliseconds()
	close(stopSampler)
	<-samplerDone
	mu.Lock()
	for _, sq := range rep.Started {
		if !sq.Returned {
			rep.NotReturned++
		}
	}
	mu.Unlock()
	config.SetQueryTimeoutSecs(300)
	// settle: tables empty, goroutine count back to the baseline, and no goroutine of a query left
	type seenG struct {
		first, sigSince time.Time
		sig, fn         string
	}
	rep.Lingered = map[string]int64{}
	seen := map[uint64]*seenG{}
	var offenders []goroutineInfo
	settleMax := sr.SettleMaxMs
	if settleMax < sr.SettleMs {
		settleMax = sr.SettleMs
	}
	t0 := time.Now()
	for {
		runtime.GC()
		rep.Final = readQStats()
		now := time.Now()
		offenders = offenders[:0]
		if rep.NotReturned == 0 {
			rep.DumpsCompared++
			present := map[uint64]bool{}
			rep.OtherNew = map[string]int{}
			for _, g := range allGoroutines() {
				if !baseIDs[g.ID] && g.Query == "" && g.Siglens != "" {
					rep.OtherNew[g.Siglens]++
				}
				if baseIDs[g.ID] || g.Query == "" {
					continue
				}
				offenders = append(offenders, g)
				present[g.ID] = true
				if sg := seen[g.ID]; sg == nil {
					seen[g.ID] = &seenG{first: now, sigSince: now, sig: g.Sig, fn: g.Query}
				} else if sg.sig != g.Sig {
					sg.sig, sg.sigSince = g.Sig, now
				}
				if ms := now.Sub(seen[g.ID].first).Milliseconds(); ms >= rep.Lingered[g.Query] {
					rep.Lingered[g.Query] = ms
				}
			}
			for id := range seen {
				if !present[id] {
					delete(seen, id)
				}
			}
		}
		if rep.Final.Active == 0 && rep.Final.Waiting == 0 && rep.Final.Goroutines <= rep.Baseline.Goroutines+goroutineSlack && len(offenders) == 0 {
			break
		}
		if el := time.Since(t0); el > time.Duration(sr.SettleMs)*time.Millisecond {
			// still moving goroutines of finished queries (residual work) get more time; blocked
			// ones do not: nothing is going to wake them
			moving := false
			for _, g := range offenders {
				if !g.Waiting || now.Sub(seen[g.ID].sigSince) < leakStableMs*time.Millisecond {
					moving = true
				}
			}
			if !moving || el > time.Duration(settleMax)*time.Millisecond {
				break
			}
		}
		time.Sleep(100 * time.Millisecond)
	}
	rep.SettleWaitedMs = time.Since(t0).Milliseconds()
	for _, g := range offenders {
		sg := seen[g.ID]
		if !g.Waiting || time.Since(sg.sigSince) < leakStableMs*time.Millisecond {
			rep.LeakedMoving++
		}
		if len(rep.Leaked) >= 40 {
			continue
		}
		stack := g.Text
		if len(stack) > 3000 {
			stack = stack[:3000] + "..."
		}
		rep.Leaked = append(rep.Leaked, leakedGorou{ID: g.ID, State: g.State, Func: g.Query, Waiting: g.Waiting,
			StableMs: time.Since(sg.sigSince).Milliseconds(), SeenMs: time.Since(sg.first).Milliseconds(), Stack: stack})
	}
	if rep.NotReturned > 0 || rep.Final.Active != 0 || rep.Final.Waiting != 0 || rep.Final.Goroutines > rep.Baseline.Goroutines+goroutineSlack {
		rep.GoroutineDump = goroutineSummary()
	}
	mu.Lock()
	defer mu.Unlock()
	return rep, nil
}

const goroutineSlack = 8

// leakStableMs: a goroutine of a finished query counts as "staying" when it is in a waiting
// state with an unchanged stack for at least this long at the end of the settle period.
const leakStableMs = 3000

// quiesceStuckMs: queries that have not returned count as stuck when nothing of any query has
// moved for this long (more than twice the longest query timeout a sequence uses, 20 s).
const quiesceStuckMs = 45_000

// runHTTPSearch sends one search request through the handler of POST /api/search.
func runHTTPSearch(sr *scriptReq, text string) (int, string) {
	body, _ := json.Marshal(map[string]interface{}{"searchText": text, "indexName": sr.Index, "startEpoch": sr.Start, "endEpoch": sr.End,
		"queryLanguage": "Splunk QL"})
	ctx := &fasthttp.RequestCtx{}
	ctx.Request.Header.SetMethod("POST")
	ctx.Request.SetRequestURI("/api/search")
	ctx.Request.SetBody(body)
	pipesearch.ProcessPipeSearchRequest(ctx, 0)
	return ctx.Response.StatusCode(), string(ctx.Response.Body())
}

const scriptBaseTimeoutSecs = 20

// goroutineSummary groups the current goroutines by their top siglens frame.
// countedGoroutines is the number of goroutines without the idle workers of the harness' own in-memory
// fasthttp server (its worker pool keeps workers for up to two idle periods of 10 s; they belong to the
// harness, not to the server under test, and made the count-based net fire once on the unchanged tree).
func countedGoroutines() int {
	buf := make([]byte, 4<<20)
	n := runtime.Stack(buf, true)
	c := 0
	for _, g := range strings.Split(string(buf[:n]), "\n\n") {
		if strings.Contains(g, "fasthttp.(*workerPool).workerFunc") && !strings.Contains(g, "siglens/siglens/pkg/") {
			continue
		}
		if strings.TrimSpace(g) != "" {
			c++
		}
	}
	return c
}

func goroutineSummary() string {
	buf := make([]byte, 4<<20)
	n := runtime.Stack(buf, true)
	counts := map[string]int{}
	for _, g := range splitGoroutines(string(buf[:n])) {
		counts[g]++
	}
	keys := make([]string, 0, len(counts))
	for k := range counts {
		keys = append(keys, k)
	}
	sort.Slice(keys, func(i, j int) bool { return counts[keys[i]] > counts[keys[j]] })
	out := ""
	for i, k := range keys {
		if i >= 12 {
			break
		}
		out += fmt.Sprintf("%d x %s\n", counts[k], k)
	}
	return out
}

// runWS runs one websocket search session; cancelAfter>=0 sends the cancel message after that
// many milliseconds. The terminal state seen by the client is recorded in sq.
func runWS(ln *fasthttputil.InmemoryListener, sr *scriptReq, text string, cancelAfter int, sq *startedQuery) {
	d := websocket.Dialer{NetDial: func(network, addr string) (net.Conn, error) { return ln.Dial() }, HandshakeTimeout: 10 * time.Second}
	conn, _, err := d.Dial("ws://c17/api/search/ws", nil)
	if err != nil {
		sq.Outcome = "ws:dial-error:" + err.Error()
		return
	}
	defer conn.Close()
	msg := map[string]interface{}{"state": "query", "searchText": text, "indexName": sr.Index, "startEpoch": sr.Start, "endEpoch": sr.End,
		"queryLanguage": "Splunk QL"}
	if err := conn.WriteJSON(msg); err != nil {
		sq.Outcome = "ws:write-error:" + err.Error()
		return
	}
	var wmu sync.Mutex
	if cancelAfter >= 0 {
		go func() {
			time.Sleep(time.Duration(cancelAfter) * time.Millisecond)
			wmu.Lock()
			sq.CancelRequested = true
			_ = conn.WriteJSON(map[string]interface{}{"state": "cancel"})
			wmu.Unlock()
		}()
	}
	states := ""
	sawRunning := false
	for {
		rd := sr.QuiesceMs
		if sr.QuiesceMaxMs > rd {
			rd = sr.QuiesceMaxMs // the script decides about stuck queries, not this deadline
		}
		_ = conn.SetReadDeadline(time.Now().Add(time.Duration(rd) * time.Millisecond))
		var m map[string]interface{}
		if err := conn.ReadJSON(&m); err != nil {
			if sq.Outcome == "" {
				if websocket.IsCloseError(err, websocket.CloseNormalClosure, websocket.CloseGoingAway, websocket.CloseAbnormalClosure) || err.Error() == "EOF" {
					sq.Outcome = "ws:closed-without-terminal-state"
				} else if ne, ok := err.(net.Error); ok && ne.Timeout() {
					sq.Outcome = "ws:no-terminal-state-in-time"
				} else {
					sq.Outcome = "ws:closed-without-terminal-state:" + err.Error()
				}
			}
			sq.States = states
			return
		}
		st, _ := m["state"].(string)
		if q, ok := m["qid"].(float64); ok && sq.Qid == 0 {
			sq.Qid = uint64(q)
		}
		if len(states) < 200 {
			states += st + ","
		}
		switch st {
		case "RUNNING":
			sawRunning = true
		case "COMPLETE", "CANCELLED", "TIMEOUT", "error":
			wmu.Lock()
			if st == "CANCELLED" && sawRunning {
				sq.CancelWhileRunning = true
			}
			wmu.Unlock()
			sq.Outcome = "ws:" + st
			if st == "error" {
				sq.Outcome = fmt.Sprintf("ws:error:%v", m["message"])
			}
			sq.States = states
			return
		}
	}
}

func splitGoroutines(dump string) []string {
	var out []string
	for _, blk := range splitBlocks(dump) {
		lines := splitLines(blk)
		if len(lines) == 0 {
			continue
		}
		state := lines[0]
		if i := indexByte(state, '['); i >= 0 {
			state = state[i:]
		}
		key := ""
		for _, l := range lines[1:] {
			if len(l) > 0 && l[0] != '\t' && (contains(l, "siglens") || contains(l, "c17.")) {
				key = l
				if j := indexByte(key, '('); j > 0 {
					key = key[:j]
				}
				break
			}
		}
		if key == "" && len(lines) > 1 {
			key = lines[1]
			if j := indexByte(key, '('); j > 0 {
				key = key[:j]
			}
		}
		out = append(out, state+" "+key)
	}
	return out
}

func splitBlocks(s string) []string {
	var out []string
	cur := ""
	for _, l := range splitLines(s) {
		if l == "" {
			if cur != "" {
				out = append(out, cur)
				cur = ""
			}
			continue
		}
		cur += l + "\n"
	}
	if cur != "" {
		out = append(out, cur)
	}
	return out
}

func splitLines(s string) []string {
	var out []string
	st := 0
	for i := 0; i < len(s); i++ {
		if s[i] == '\n' {
			out = append(out, s[st:i])
			st = i + 1
		}
	}
	if st < len(s) {
		out = append(out, s[st:])
	}
	return out
}

func indexByte(s string, c byte) int {
	for i := 0; i < len(s); i++ {
		if s[i] == c {
			return i
		}
	}
	return -1
}

func contains(s, sub string) bool {
	for i := 0; i+len(sub) <= len(s); i++ {
		if s[i:i+len(sub)] == sub {
			return true
		}
	}
	return false
}
