package c17

import (
	"fmt"
	"strings"

	"pgregory.net/rapid"
)

// ---- grammar-derived SPL generator ---------------------------------------------------------
//
// The generator follows the command set of pkg/ast/spl/spl.peg (search, where, eval, stats,
// streamstats, timechart, bin, top, rare, dedup, sort, head, tail, fields, rename, rex, regex,
// makemv, mvexpand, fillnull, spath, format, tojson, transaction, append, eventcount, gentimes,
// inputlookup). It is "mostly valid": every production is one the grammar documents, but
// combinations the parser rejects are welcome too (outcome = error).

type fieldPool struct {
	Fields []string // all column names usable as identifiers
}

var defaultFields = &fieldPool{Fields: []string{"a", "b", "c", "d", "e", "ab", "abc", "x1", "Name", "msg", "lat", "k_1", "app",
	"host", "v", "n.x", "obj.id", "http.code", "timestamp", "status", "latency", "city", "col0", "col1"}}

func pick(t *rapid.T, label string, opts ...string) string {
	return rapid.SampledFrom(opts).Draw(t, label)
}

func chance(t *rapid.T, label string, pct int) bool {
	return rapid.IntRange(0, 99).Draw(t, label) < pct
}

type splGen struct {
	t        *rapid.T
	fp       *fieldPool
	noTime   bool // do not emit wall-clock relative constructs (earliest/latest/gentimes/now())
	execSafe bool // avoid commands that only make sense with external state (inputlookup files)
}

func (g *splGen) field() string {
	f := rapid.SampledFrom(g.fp.Fields).Draw(g.t, "field")
	return f
}

func (g *splGen) newField() string {
	return pick(g.t, "newField", "x", "y", "res", "out1", "tmp", "cnt", "total", "a", "b", "Name", "v")
}

func (g *splGen) intLit() string {
	switch rapid.IntRange(0, 9).Draw(g.t, "intKind") {
	case 0:
		return pick(g.t, "bigInt", "9223372036854775807", "-9223372036854775808", "18446744073709551615", "4294967296", "65536", "0", "-0", "007")
	case 1:
		return fmt.Sprint(rapid.IntRange(-1000000, 1000000).Draw(g.t, "midInt"))
	default:
		return fmt.Sprint(rapid.IntRange(-3, 12).Draw(g.t, "smallInt"))
	}
}

func (g *splGen) posInt() string {
	return fmt.Sprint(rapid.SampledFrom([]int{0, 1, 2, 3, 5, 10, 100, 1000, 10000, 100000}).Draw(g.t, "posInt"))
}

func (g *splGen) numLit() string {
	if chance(g.t, "isFloat", 30) {
		return pick(g.t, "floatLit", "0.5", "1.5", "-2.25", "3.14", "1e3", "0.0", "100.001", ".5", "1e308", "1e-320", "2.")
	}
	return g.intLit()
}

func (g *splGen) strLit() string {
	return pick(g.t, "strLit", `"alpha"`, `"beta"`, `"x y"`, `""`, `"a*"`, `"*"`, `"%d"`, `"^a.*$"`, `"(?<n>\d+)"`, `"é漢"`, `"a\"b"`, `"back\\slash"`,
		`"1"`, `"true"`, `"192.168.0.0/16"`, `"-1d@d"`, `"%Y-%m-%d"`, `","`, `" "`, `"a.b.c"`, `"{\"k\":1}"`, `"hex"`, `"commas"`, `"|"`, `"OR"`)
}

func (g *splGen) word() string {
	return pick(g.t, "word", "alpha", "beta", "gamma", "err", "Alpha", "abcdef", "a", "zz", "x1", "200", "al*", "*a", "a*b", "true", "false", "null", "12", "1.5")
}

// ---- search clause ----

func (g *splGen) searchTerm() string {
	switch rapid.IntRange(0, 11).Draw(g.t, "termKind") {
	case 0:
		return "*"
	case 1, 2:
		return g.field() + pick(g.t, "cmp", "=", "!=", " = ", "=") + g.searchValue()
	case 3:
		return g.field() + pick(g.t, "cmpIneq", "<", ">", "<=", ">=") + g.numLit()
	case 4:
		return g.word()
	case 5:
		return g.strLit()
	case 6:
		return pick(g.t, "caseTerm", "CASE", "TERM") + "(" + g.word() + ")"
	case 7:
		return g.field() + "=*"
	case 8:
		return g.field() + ` IN (` + g.searchValue() + `, ` + g.searchValue() + `)`
	case 9:
		if g.noTime {
			return g.field() + "=" + g.searchValue()
		}
		return "earliest=" + pick(g.t, "rel", "-1h", "-7d@d", "@w0", "-1mon", "1", "01/02/2023:10:00:00", "-30m@h", "now") +
			pick(g.t, "lat", "", " latest=now", " latest=-1m", " latest=@d", " latest=+1d@d")
	default:
		return g.field() + "=" + g.searchValue()
	}
}

func (g *splGen) searchValue() string {
	switch rapid.IntRange(0, 5).Draw(g.t, "svKind") {
	case 0:
		return g.numLit()
	case 1:
		return g.strLit()
	case 2:
		return pick(g.t, "boolv", "true", "false")
	default:
		return g.word()
	}
}

func (g *splGen) searchClause(depth int) string {
	if depth <= 0 {
		return g.searchTerm()
	}
	switch rapid.IntRange(0, 9).Draw(g.t, "clauseKind") {
	case 0:
		return "NOT " + g.searchClause(depth-1)
	case 1:
		return g.searchClause(depth-1) + " AND " + g.searchClause(depth-1)
	case 2:
		return g.searchClause(depth-1) + " OR " + g.searchClause(depth-1)
	case 3:
		return g.searchClause(depth-1) + " " + g.searchClause(depth-1)
	case 4:
		return "(" + g.searchClause(depth-1) + ")"
	default:
		return g.searchTerm()
	}
}

// ---- eval expressions ----

func (g *splGen) numExpr(depth int) string {
	if depth <= 0 {
		if chance(g.t, "numLeafField", 50) {
			return g.field()
		}
		return g.numLit()
	}
	d := depth - 1
	switch rapid.IntRange(0, 22).Draw(g.t, "numKind") {
	case 0, 1, 2:
		return g.numExpr(d) + pick(g.t, "arith", " + ", " - ", " * ", " / ", " % ", "+", "*") + g.numExpr(d)
	case 3:
		return "(" + g.numExpr(d) + ")"
	case 4:
		return pick(g.t, "fn1", "abs", "ceil", "floor", "round", "sqrt", "exp", "ln", "log", "exact", "sigfig", "sin", "cos", "tan", "asin", "acos",
			"atan", "sinh", "cosh", "tanh", "asinh", "acosh", "atanh", "ceiling", "bit_not") + "(" + g.numExpr(d) + ")"
	case 5:
		return pick(g.t, "fn2", "pow", "round", "log", "atan2", "hypot", "bit_and", "bit_or", "bit_xor", "bit_shift_left", "bit_shift_right") +
			"(" + g.numExpr(d) + ", " + g.numExpr(d) + ")"
	case 6:
		return pick(g.t, "fn0", "pi()", "random()", "now()", "time()")
	case 7:
		return "len(" + g.strExpr(d) + ")"
	case 8:
		return "tonumber(" + g.strExpr(d) + pick(g.t, "base", "", ", 16", ", 2", ", 36", ", 10", ", 37") + ")"
	case 9:
		return pick(g.t, "minmax", "max", "min") + "(" + g.numExpr(d) + ", " + g.numExpr(d) + ", " + g.field() + ")"
	case 10:
		return "mvcount(" + g.field() + ")"
	case 11:
		return "strptime(" + g.strExpr(d) + `, "%Y-%m-%d %H:%M:%S")`
	case 12:
		return `relative_time(` + pick(g.t, "rt", "now()", g.field(), "1700000000") + `, ` + pick(g.t, "rts", `"-1d@d"`, `"+1h"`, `"@w"`, `"-2mon@mon"`, `"x"`) + `)`
	case 13:
		return "if(" + g.boolExpr(d) + ", " + g.numExpr(d) + ", " + g.numExpr(d) + ")"
	case 14:
		return "mvfind(" + g.field() + `, "a.*")`
	default:
		if chance(g.t, "numLeafField2", 50) {
			return g.field()
		}
		return g.numLit()
	}
}

func (g *splGen) strExpr(depth int) string {
	if depth <= 0 {
		if chance(g.t, "strLeafField", 50) {
			return g.field()
		}
		return g.strLit()
	}
	d := depth - 1
	switch rapid.IntRange(0, 30).Draw(g.t, "strKind") {
	case 0, 1:
		return g.strExpr(d) + pick(g.t, "concat", " . ", ".", " + ") + g.strExpr(d)
	case 2:
		return pick(g.t, "sfn1", "lower", "upper", "trim", "ltrim", "rtrim", "urldecode", "typeof", "md5", "sha1", "sha256", "sha512", "mvdedup", "mvsort",
			"tojson", "json_valid") + "(" + g.strExpr(d) + ")"
	case 3:
		return pick(g.t, "sfn2", "trim", "ltrim", "rtrim", "split", "mvjoin", "mvappend", "mvzip", "spath", "coalesce", "nullif", "json_extract", "ipmask") +
			"(" + g.strExpr(d) + ", " + g.strExpr(d) + ")"
	case 4:
		return "substr(" + g.strExpr(d) + ", " + g.intLit() + pick(g.t, "substrLen", "", ", 2", ", -1", ", 100") + ")"
	case 5:
		return "replace(" + g.strExpr(d) + ", " + pick(g.t, "re", `"^(\d{1,2})/(\d{1,2})/"`, `"a"`, `"("`, `"[a-"`, `".*"`, `"\\"`) + ", " + g.strLit() + ")"
	case 6:
		return "tostring(" + g.numExpr(d) + pick(g.t, "tsfmt", "", `, "hex"`, `, "commas"`, `, "duration"`, `, "xyz"`) + ")"
	case 7:
		return "strftime(" + g.numExpr(d) + `, ` + pick(g.t, "fmt", `"%Y-%m-%dT%H:%M:%S.%Q"`, `"%H:%M"`, `"%s"`, `"%"`, `"%e %b %Z"`) + `)`
	case 8:
		return "mvindex(" + g.field() + ", " + g.intLit() + pick(g.t, "mvend", "", ", 2", ", -1") + ")"
	case 9:
		return "if(" + g.boolExpr(d) + ", " + g.strExpr(d) + ", " + g.strExpr(d) + ")"
	case 10:
		return "case(" + g.boolExpr(d) + ", " + g.strExpr(d) + pick(g.t, "caseMore", "", ", true(), \"other\"", ", 1=1, "+g.strLit()) + ")"
	case 11:
		return "validate(" + g.boolExpr(d) + ", " + g.strLit() + ")"
	case 12:
		return "null()"
	case 13:
		return "printf(" + pick(g.t, "pf", `"%d"`, `"%s-%s"`, `"%5.2f"`, `"%c,%c"`, `"%"`, `"%x %o"`) + ", " + g.numExpr(d) + ")"
	case 14:
		return "mvfilter(" + g.boolExpr(d) + ")"
	case 15:
		return "mvmap(" + g.field() + ", " + g.numExpr(d) + ")"
	case 16:
		return "mvrange(" + g.intLit() + ", " + g.intLit() + pick(g.t, "mvstep", "", ", 2", `, "7d"`, ", 0", ", -1") + ")"
	case 17:
		return `mv_to_json_array(` + g.field() + pick(g.t, "infer", "", ", true()", ", false()") + `)`
	case 18:
		return `cluster(` + g.field() + `, threshold:0.5, match:termset, delims:";")`
	case 19:
		return `getfields("` + pick(g.t, "gf", "*", "a*", "status_*_*", "") + `")`
	case 20:
		return `object_to_array(` + g.field() + `,"k", "v")`
	case 21:
		return g.numExpr(d)
	default:
		if chance(g.t, "strLeafField2", 50) {
			return g.field()
		}
		return g.strLit()
	}
}

func (g *splGen) boolExpr(depth int) string {
	if depth <= 0 {
		if chance(g.t, "bIneq", 40) {
			return g.field() + pick(g.t, "bcmpIneq", "<", ">", "<=", ">=", " > ", " < ") + g.numLit()
		}
		return g.field() + pick(g.t, "bcmp", "=", "!=", " == ", " = ") + g.searchValueExpr()
	}
	d := depth - 1
	switch rapid.IntRange(0, 14).Draw(g.t, "boolKind") {
	case 0:
		return "NOT (" + g.boolExpr(d) + ")"
	case 1:
		return g.boolExpr(d) + " AND " + g.boolExpr(d)
	case 2:
		return g.boolExpr(d) + " OR " + g.boolExpr(d)
	case 3:
		return "(" + g.boolExpr(d) + ")"
	case 4:
		return pick(g.t, "isfn", "isnull", "isnotnull", "isnum", "isint", "isstr", "isbool") + "(" + g.field() + ")"
	case 5:
		return pick(g.t, "likefn", "like", "match") + "(" + g.field() + ", " + pick(g.t, "pat", `"4%"`, `"^a"`, `"%"`, `"("`, `"_b_"`, `"[0-9]+"`) + ")"
	case 6:
		return `cidrmatch("` + pick(g.t, "cidr", "192.0.2.0/24", "10.0.0.0/8", "::1/128", "300.1.1.1/40", "x") + `", ` + g.field() + `)`
	case 7:
		return g.field() + " in(" + g.searchValueExpr() + ", " + g.searchValueExpr() + ")"
	case 8:
		return "in(" + g.field() + ", " + g.strExpr(d) + ", " + g.numExpr(d) + ")"
	case 9:
		return `searchmatch("` + pick(g.t, "sm", "x=hi y=*", "a=1", "*", "a=1 OR b=2", "(") + `")`
	case 10:
		return g.numExpr(d) + pick(g.t, "ncmp", " > ", " < ", " >= ", " <= ", " = ", " != ", "==") + g.numExpr(d)
	case 11:
		return pick(g.t, "tf", "true()", "false()")
	default:
		return g.field() + pick(g.t, "bcmp2", "=", "!=") + g.searchValueExpr()
	}
}

func (g *splGen) searchValueExpr() string {
	switch rapid.IntRange(0, 3).Draw(g.t, "sveKind") {
	case 0:
		return g.strLit()
	case 1:
		return g.field()
	default:
		return g.numLit()
	}
}

func (g *splGen) anyExpr(depth int) string {
	switch rapid.IntRange(0, 3).Draw(g.t, "exprKind") {
	case 0:
		return g.strExpr(depth)
	case 1:
		return g.boolExprAsValue(depth)
	default:
		return g.numExpr(depth)
	}
}

func (g *splGen) boolExprAsValue(depth int) string {
	return "if(" + g.boolExpr(depth) + `, "yes", "no")`
}

// ---- aggregations ----

var splAggNames = []string{"count", "c", "dc", "distinct_count", "avg", "mean", "sum", "min", "max", "range", "values", "list", "earliest", "latest",
	"first", "last", "median", "mode", "stdev", "stdevp", "var", "varp", "sumsq", "estdc", "estdc_error", "rate", "earliest_time", "latest_time",
	"perc95", "p50", "exactperc99", "upperperc10", "perc66.6", "p0", "p100", "per_second", "cardinality"}

func (g *splGen) agg() string {
	name := rapid.SampledFrom(splAggNames).Draw(g.t, "aggName")
	var s string
	switch rapid.IntRange(0, 9).Draw(g.t, "aggForm") {
	case 0:
		if name == "count" || name == "c" {
			s = name
		} else {
			s = name + "(" + g.field() + ")"
		}
	case 1:
		s = name + "(eval(" + g.boolExpr(1) + "))"
	case 2:
		s = name + "(eval(" + g.numExpr(1) + "))"
	case 3:
		s = "count"
	default:
		s = name + "(" + g.field() + ")"
	}
	if chance(g.t, "aggAs", 40) {
		s += pick(g.t, "asKw", " AS ", " as ") + g.newField()
	}
	return s
}

func (g *splGen) aggList() string {
	n := rapid.IntRange(1, 3).Draw(g.t, "nAggs")
	parts := make([]string, n)
	for i := range parts {
		parts[i] = g.agg()
	}
	return strings.Join(parts, pick(g.t, "aggSep", ", ", " ", ","))
}

func (g *splGen) byClause(pct int) string {
	if !chance(g.t, "hasBy", pct) {
		return ""
	}
	n := rapid.IntRange(1, 3).Draw(g.t, "nBy")
	parts := make([]string, n)
	for i := range parts {
		parts[i] = g.field()
	}
	return pick(g.t, "byKw", " BY ", " by ") + strings.Join(parts, ", ")
}

func (g *splGen) fieldList(sep string, max int) string {
	n := rapid.IntRange(1, max).Draw(g.t, "nFields")
	parts := make([]string, n)
	for i := range parts {
		parts[i] = g.field()
	}
	return strings.Join(parts, sep)
}

func (g *splGen) span() string {
	return pick(g.t, "span", "1s", "5m", "1h", "2d", "1w", "1mon", "1q", "1y", "10", "0.5", "100ms", "30sec", "0s", "1000000h", "log2", "2log5", "7cs")
}

// ---- commands ----

var splCommandKinds = []string{"search", "where", "eval", "stats", "streamstats", "timechart", "bin", "top", "rare", "dedup", "sort", "head", "tail",
	"fields", "rename", "rex", "regex", "makemv", "mvexpand", "fillnull", "spath", "format", "tojson", "transaction", "append", "eventcount",
	"inputlookup", "eval", "stats", "where", "sort", "head"}

func (g *splGen) command(kind string) string {
	t := g.t
	switch kind {
	case "search":
		return "search " + g.searchClause(rapid.IntRange(0, 2).Draw(t, "scDepth"))
	case "where":
		return "where " + g.boolExpr(rapid.IntRange(0, 3).Draw(t, "whDepth"))
	case "eval":
		n := rapid.IntRange(1, 3).Draw(t, "nEval")
		parts := make([]string, n)
		for i := range parts {
			parts[i] = g.newField() + pick(t, "evalEq", "=", " = ") + g.anyExpr(rapid.IntRange(0, 3).Draw(t, "evDepth"))
		}
		return "eval " + strings.Join(parts, ", ")
	case "stats":
		s := "stats " + g.aggList() + g.byClause(60)
		if chance(t, "statsOpt", 10) {
			s += " " + pick(t, "statsOptKind", "allnum=true", "dedup_splitvals=true", `delim=","`, "partitions=2")
		}
		return s
	case "streamstats":
		opts := ""
		if chance(t, "ssOpts", 50) {
			opts = pick(t, "ssOpt", "window=3 ", "current=false ", "global=false window=2 ", "reset_on_change=true ", "allnum=true ", "time_window=1h ",
				"reset_before=("+g.boolExpr(0)+") ", "reset_after=("+g.boolExpr(0)+") ", "window=0 ", "window=10001 ")
		}
		return "streamstats " + opts + g.aggList() + g.byClause(40)
	case "timechart":
		s := "timechart "
		if chance(t, "tcSpan", 50) {
			s += "span=" + g.span() + " "
		} else if chance(t, "tcBins", 20) {
			s += "bins=" + g.posInt() + " "
		}
		s += g.aggList()
		if chance(t, "tcBy", 50) {
			s += " BY " + g.field()
		}
		if chance(t, "tcLimit", 25) {
			s += " limit=" + pick(t, "tcLim", "5", "top3", "bottom 2", "0", "top 100000")
		}
		if chance(t, "tcOpt", 15) {
			s += " " + pick(t, "tcOptKind", "usenull=f", "useother=t", `nullstr="N"`, `otherstr="O"`, "usenull=true useother=false")
		}
		return s
	case "bin":
		opt := pick(t, "binOpt", "span="+g.span(), "bins="+g.posInt(), "minspan="+g.span(), "start=0 end=100", "span=10 start=5", "span=1h aligntime=1700000000",
			"bins=3 span=2", "span=log10", "span=0")
		if !g.noTime && chance(t, "binAlignRel", 10) {
			opt = "span=1h aligntime=" + pick(t, "alignRel", "-1d@d", "@h", "now")
		}
		s := "bin " + opt + " " + g.field()
		if chance(t, "binAs", 40) {
			s += " AS " + g.newField()
		}
		return s
	case "top", "rare":
		s := kind
		if chance(t, "topN", 50) {
			s += " " + g.posInt()
		}
		s += " " + g.fieldList(", ", 2)
		s += g.byClause(40)
		if chance(t, "topOpt", 40) {
			s += " " + pick(t, "topOptKind", "useother=true", "showperc=false", "countfield=cnt", "percentfield=pct showcount=false", `otherstr="rest" useother=t`, "limit=2")
		}
		return s
	case "dedup":
		s := "dedup"
		if chance(t, "ddN", 40) {
			s += " " + g.posInt()
		}
		s += " " + g.fieldList(" ", 3)
		if chance(t, "ddOpt", 40) {
			s += " " + pick(t, "ddOptKind", "keepevents=true", "keepempty=true", "consecutive=true", "keepevents=true keepempty=true consecutive=false")
		}
		if chance(t, "ddSort", 30) {
			s += " sortby " + pick(t, "ddSign", "+", "-", "") + g.field()
		}
		return s
	case "sort":
		s := "sort "
		if chance(t, "sortLim", 40) {
			s += pick(t, "sortLimKw", "", "limit=") + g.posInt() + " "
		}
		n := rapid.IntRange(1, 3).Draw(t, "nSort")
		parts := make([]string, n)
		for i := range parts {
			f := g.field()
			if chance(t, "sortCast", 30) {
				f = pick(t, "cast", "auto", "str", "num", "ip") + "(" + f + ")"
			}
			parts[i] = pick(t, "sortSign", "", "+", "-") + f
		}
		return s + strings.Join(parts, ", ")
	case "head":
		return "head" + pick(t, "headForm", "", " "+g.posInt(), " limit="+g.posInt(), " "+g.boolExpr(1), " ("+g.boolExpr(1)+") keeplast=true",
			" limit=3 "+g.boolExpr(0)+" null=true", " keeplast=true null=false "+g.boolExpr(0))
	case "tail":
		return "tail" + pick(t, "tailForm", "", " "+g.posInt(), " 0", " 99999999999")
	case "fields":
		return "fields " + pick(t, "fieldsOp", "", "- ", "+ ") + g.fieldList(", ", 4)
	case "rename":
		return "rename " + pick(t, "renSrc", g.field(), "a*", "*", "ht*_*", `"x y"`) + " AS " + pick(t, "renDst", g.newField(), `"new name"`, "n*", "start*mid*end", `"*"`)
	case "rex":
		return "rex field=" + pick(t, "rexField", g.field(), "msg", "Name") + " " + pick(t, "rexPat", `"(?<first>\d+)\.(?<second>\d+)"`, `"(?<n>.+)@(?<p>.+)"`,
			`"(?P<error>\"[^\"]*\")"`, `"("`, `"(?<a>a)(?<a>b)"`, `"(?<x>"`, `"no groups"`, `"(?<timestamp>\d+)"`, `"(?<n>[a-z]+)\d*"`)
	case "regex":
		return "regex " + pick(t, "regexForm", g.field()+"=", g.field()+"!=", "") + pick(t, "regexPat", `"^\d$"`, `"a.*"`, `"("`, `"[a-"`, `"(?i)alpha"`, `""`)
	case "makemv":
		return "makemv " + pick(t, "mmOpt", "", `delim="," `, `delim=" " allowempty=true `, `tokenizer="([^,]+),?" `, `setsv=true `, `delim="" `) + g.field()
	case "mvexpand":
		return "mvexpand " + g.field() + pick(t, "mvLim", "", " limit=2", " limit=0", " limit=-1")
	case "fillnull":
		return "fillnull" + pick(t, "fnVal", "", ` value=0`, ` value="NULL"`, ` value=x y`) + pick(t, "fnFields", "", " "+g.fieldList(" ", 3))
	case "spath":
		return "spath" + pick(t, "spForm", "", " input="+g.field(), " output="+g.newField()+" path=a.b", " path=obj.id", ` input=msg path="a{}.b"`, " "+g.field(), " path=a{1}")
	case "format":
		return "format" + pick(t, "fmtForm", "", ` mvsep=","`, " maxresults=2", ` emptystr="none"`, ` "[" "(" "&&" ")" "||" "]"`, ` mvsep="|" maxresults=0 "(" "(" "AND" ")" "OR" ")"`)
	case "tojson":
		return "tojson" + pick(t, "tjForm", "", " auto("+g.field()+")", " str(a*) num(b)", " default_type=num", " fill_null=true", " include_internal=true output_field=j",
			" none(*)", " bool("+g.field()+") default_type=json", ` json("*")`)
	case "transaction":
		return "transaction " + pick(t, "txForm", g.field(), g.field()+" "+g.field(), g.field()+` startswith="alpha"`, g.field()+` endswith=eval(`+g.boolExpr(0)+`)`,
			`startswith=`+g.field()+`=1 endswith="x"`, g.field()+` startswith=("a" OR b=2)`)
	case "append":
		return "append " + pick(t, "apOpt", "", "maxout=5 ", "extendtimerange=true ", "maxtime=10 ", "maxout=0 maxtime=1 ") + "[ search " + g.searchClause(1) +
			pick(t, "apSub", "", "", "", " | stats count") + " ]"
	case "eventcount":
		return "eventcount" + pick(t, "ecForm", "", " index=*", " index=c17idx summarize=false", " summarize=true report_size=true", " list_vix=false index=a index=b")
	case "inputlookup":
		if g.execSafe {
			return "head 3"
		}
		return "inputlookup " + pick(t, "ilOpt", "", "append=true ", "start=1 max=2 ", "strict=true ") + pick(t, "ilFile", "abc.csv", "x.csv.gz", `"my file.csv"`, "nofile") +
			pick(t, "ilWhere", "", " where "+g.boolExpr(0))
	}
	return "head 1"
}

// query draws a complete SPL query.
func (g *splGen) query() string {
	t := g.t
	var sb strings.Builder
	first := rapid.IntRange(0, 19).Draw(t, "startKind")
	switch {
	case first == 0 && !g.noTime:
		sb.WriteString("| gentimes " + pick(t, "gtForm", "start=-1", "start=-3 increment=1h", "start=01/01/2024 end=01/03/2024", "start=-1 end=1 increment=6h",
			"start=01/01/2024:00:00:00 end=01/01/2024:01:00:00 increment=10m", "start=1 end=-1", "start=-1 increment=0s"))
	case first == 1 && !g.execSafe:
		sb.WriteString("| " + g.command("inputlookup"))
	case first == 2:
		sb.WriteString(pick(t, "idxKw", "_index=", "index=") + pick(t, "idxName", "c17idx", "*", `"c17idx"`, "c17*", "nosuch", "a OR _index=c17idx") + " " + g.searchClause(1))
	case first <= 5:
		sb.WriteString("search " + g.searchClause(rapid.IntRange(0, 2).Draw(t, "sc0Depth")))
	case first <= 8:
		sb.WriteString("*")
	default:
		sb.WriteString(g.searchClause(rapid.IntRange(0, 3).Draw(t, "sc1Depth")))
	}
	n := rapid.IntRange(0, 5).Draw(t, "nCmds")
	for i := 0; i < n; i++ {
		sb.WriteString(pick(t, "pipe", " | ", "|", " |", "| ", "  |  "))
		sb.WriteString(g.command(rapid.SampledFrom(splCommandKinds).Draw(t, "cmdKind")))
	}
	return sb.String()
}

// genSPL draws a mostly-valid SPL query over the given fields.
func genSPL(t *rapid.T, fp *fieldPool, noTime, execSafe bool) string {
	g := &splGen{t: t, fp: fp, noTime: noTime, execSafe: execSafe}
	return g.query()
}

// genPipeQL draws a query in the older "Pipe QL" grammar (pkg/ast/pipesearch/searchQuery.peg):
// search expressions followed by `| columns`, `| min(x), max(y) groupby z`, `| let`-style.
func genPipeQL(t *rapid.T, fp *fieldPool) string {
	g := &splGen{t: t, fp: fp, noTime: true}
	var sb strings.Builder
	sb.WriteString(g.searchClause(rapid.IntRange(0, 3).Draw(t, "pqDepth")))
	n := rapid.IntRange(0, 2).Draw(t, "pqCmds")
	for i := 0; i < n; i++ {
		sb.WriteString(" | ")
		switch rapid.IntRange(0, 5).Draw(t, "pqKind") {
		case 0:
			sb.WriteString("columns " + pick(t, "colOp", "", "- ") + g.fieldList(", ", 3))
		case 1:
			sb.WriteString(pick(t, "pqAgg", "min", "max", "avg", "sum", "count", "cardinality") + "(" + g.field() + ")" + pick(t, "pqBy", "", " groupby "+g.field(), " groupby "+g.field()+", "+g.field()))
		case 2:
			sb.WriteString("columns " + g.field() + "=" + g.newField())
		case 3:
			sb.WriteString("let " + g.newField() + "=" + g.numExpr(1))
		case 4:
			sb.WriteString("sort " + g.field())
		default:
			sb.WriteString("search " + g.searchTerm())
		}
	}
	return sb.String()
}
