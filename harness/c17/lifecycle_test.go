package c17

import (
	"encoding/json"
	"errors"
	"fmt"
	"os"
	"strings"
	"testing"
	"time"

	"pgregory.net/rapid"

	"verifharness/gen"
	"verifharness/pt"
	"verifharness/sut"
)

// C17 (c) — lifecycle state machine: starts (synchronous, websocket, bursts beyond the admission
// limit), cancels at generated delays, deletes of finished queries, shortened timeouts.
// Invariants: running <= limit at every sample; every started query reaches a terminal outcome;
// after quiescence the running and waiting tables are empty and the goroutine count is back at
// the baseline (+slack); the process stays up.

type lifeCase struct {
	DS       *gen.Dataset   `json:"ds"`
	MaxProcs int            `json:"maxProcs"` // GOMAXPROCS of the server = admission limit (MAX_RUNNING_QUERIES)
	Queries  []string       `json:"queries"`
	Actions  []scriptAction `json:"actions"`
	// ServerTimeoutSecs > 0: the worker is started with queryTimeoutSecs = this value in its server
	// configuration (VERIF_QUERY_TIMEOUT_SECS) and the script leaves it alone, so slow queries run
	// into the server's own query timeout. 0: configuration default, script base timeout of 20 s.
	ServerTimeoutSecs int `json:"serverTimeoutSecs,omitempty"`
}

// slowQueries need no stored data: gentimes generates one event per increment.
var slowQueries = []string{
	"| gentimes start=-2 increment=1s | stats count",                             // ~0.2 s alone
	"| gentimes start=-5 increment=1s | eval x=random() | stats count, max(x)",   // ~0.8 s
	"| gentimes start=-1 increment=5s | eval x=random() | sort x | head 5",       // ~1 s
	"| gentimes start=-8 increment=1s | eval y=starttime % 7 | stats count by y", // ~1.4 s
	"| gentimes start=-30 increment=1s | stats count",                            // ~3 s: exceeds a 1-2 s timeout
	"| gentimes start=-12 increment=1s | stats count",                            // ~1.2 s
}

// overTimeQueries run longer than a server timeout of 1-2 s on any machine (>= 2.5 s alone). Their
// total work is bounded in case a cancel does not stop them (on the pinned tree it does: the
// cancel runs the processor chain's cleanup and the query goroutine is gone within ~50 ms).
var overTimeQueries = []string{
	"| gentimes start=-30 increment=1s | stats count",
	"| gentimes start=-40 increment=1s | eval x=random() | stats count, max(x)",
	"| gentimes start=-25 increment=1s | eval y=starttime % 7 | stats count by y",
	"| gentimes start=-30 increment=1s | eval x=random() | sort x | head 5",
	"| gentimes start=-35 increment=1s | where starttime % 3 = 0 | stats count",
}

var fastQueries = []string{
	"*", "* | head 3", "* | stats count", "* | stats count by timestamp", "* | eval x=1 | stats sum(x)", "* | sort timestamp | head 2", "nosuchcol=1",
	"* | timechart span=1h count", "* | dedup timestamp", "* | where timestamp > 0 | fields timestamp", "* | top 3 timestamp",
	"* | this is not valid (", "* | eval x=", "| gentimes start=-1 increment=6h",
}

func genLifeCase(t *rapid.T) *lifeCase {
	ds := gen.GenDataset(t, gen.DatasetOpts{MinEvents: 5, MaxEvents: 60, MaxCols: 4, NoNested: true})
	c := &lifeCase{DS: ds, MaxProcs: rapid.SampledFrom([]int{2, 2, 3, 4}).Draw(t, "maxProcs")}
	// about 2/3 of the sequences run under a server query timeout of 1-2 s
	c.ServerTimeoutSecs = rapid.SampledFrom([]int{1, 0, 2, 1, 0, 2}).Draw(t, "serverTimeout")
	fp := datasetFields(ds)
	nq := rapid.IntRange(2, 6).Draw(t, "nQueries")
	var slowIdx []int
	for i := 0; i < nq; i++ {
		k := rapid.IntRange(0, 9).Draw(t, "qKind")
		if i == 0 && k < 4 {
			k = 4 // the first query is always a fast one: large bursts use it
		}
		if i == 1 && c.ServerTimeoutSecs > 0 {
			k = 0 // under a server timeout the second query always outlasts it
		}
		switch {
		case k < 4 && c.ServerTimeoutSecs > 0 && (i == 1 || rapid.Bool().Draw(t, "overTime")):
			c.Queries = append(c.Queries, rapid.SampledFrom(overTimeQueries).Draw(t, "overTimeQ"))
			slowIdx = append(slowIdx, i)
		case k < 4:
			c.Queries = append(c.Queries, rapid.SampledFrom(slowQueries).Draw(t, "slowQ"))
			slowIdx = append(slowIdx, i)
		case k < 7:
			c.Queries = append(c.Queries, rapid.SampledFrom(fastQueries).Draw(t, "fastQ"))
		default:
			c.Queries = append(c.Queries, genSPL(t, fp, true, true))
		}
	}
	// queries that are going to be cancelled are preferably slow ones, so that the cancel has a
	// chance to land while they run
	cancelTargetQuery := func() int {
		if len(slowIdx) > 0 && rapid.IntRange(0, 9).Draw(t, "preferSlow") < 8 {
			return rapid.SampledFrom(slowIdx).Draw(t, "slowTarget")
		}
		return rapid.IntRange(0, nq-1).Draw(t, "q")
	}
	na := rapid.IntRange(2, 10).Draw(t, "nActions")
	started := 0
	for i := 0; i < na; i++ {
		a := scriptAction{DelayMs: rapid.SampledFrom([]int{0, 0, 0, 1, 2, 5, 10, 30, 100, 300}).Draw(t, "delay")}
		k := rapid.IntRange(0, 12).Draw(t, "aKind")
		if started == 0 && k >= 6 && k <= 9 {
			k = 0
		}
		switch {
		case k <= 2:
			a.Kind = "sync"
			a.Query = rapid.IntRange(0, nq-1).Draw(t, "q")
			if rapid.Bool().Draw(t, "syncSlow") {
				a.Query = cancelTargetQuery()
			}
			// the same request through the handler of POST /api/search (it allots the qid itself,
			// so such a query cannot be the target of a later cancel action)
			if c.ServerTimeoutSecs > 0 && rapid.IntRange(0, 2).Draw(t, "viaHTTP") < 2 {
				a.Kind = "http"
				if rapid.IntRange(0, 3).Draw(t, "httpN") == 0 {
					a.Kind = "httpburst"
					a.N = rapid.SampledFrom([]int{2, 3, 5}).Draw(t, "httpBurstN")
					started += a.N - 1
				}
			}
			started++
		case k <= 4:
			a.Kind = "ws"
			a.Query = rapid.IntRange(0, nq-1).Draw(t, "q")
			a.CancelAfterMs = rapid.SampledFrom([]int{-1, -1, 0, 1, 3, 10, 30, 100, 400, 1500}).Draw(t, "wsCancel")
			if a.CancelAfterMs >= 0 {
				a.Query = cancelTargetQuery()
			}
			started++
		case k == 5:
			a.Kind = "burst"
			a.Query = rapid.IntRange(0, nq-1).Draw(t, "q")
			a.N = rapid.SampledFrom([]int{3, 8, 20, 60, 150, 300}).Draw(t, "burstN")
			if a.N > 8 {
				a.Query = 0 // bounded total work: large bursts run the fast query
			}
			started += a.N
		case k <= 8:
			a.Kind = "cancel"
			a.Target = started - 1 // most recently started query ...
			if rapid.IntRange(0, 9).Draw(t, "anyTarget") < 3 {
				a.Target = rapid.IntRange(0, started-1).Draw(t, "target") // ... or any earlier one
			}
			a.AfterMs = rapid.SampledFrom([]int{0, 0, 1, 3, 10, 30, 100, 300, 1000}).Draw(t, "cancelAfter")
		case k == 9:
			a.Kind = "delete"
			a.Target = rapid.IntRange(0, started-1).Draw(t, "target")
		case k == 12:
			// cancel storm: N websocket queries, each cancelled by its client after the same delay
			a.Kind = "wsburst"
			a.Query = cancelTargetQuery()
			a.N = rapid.SampledFrom([]int{4, 12, 25, 40}).Draw(t, "wsN")
			a.CancelAfterMs = rapid.SampledFrom([]int{0, 2, 10, 50, 200, 600}).Draw(t, "wsCancel")
			started += a.N
		case k == 10:
			a.Kind = "timeout"
			a.Secs = rapid.SampledFrom([]int{1, 1, 2, 3}).Draw(t, "secs")
		default:
			a.Kind = "sleep"
		}
		c.Actions = append(c.Actions, a)
	}
	if c.ServerTimeoutSecs > 0 {
		// at least one request that outlasts the server timeout goes through the HTTP entry point
		over := false
		for _, a := range c.Actions {
			if (a.Kind == "http" || a.Kind == "httpburst") && a.Query == 1 {
				over = true
			}
		}
		if !over {
			c.Actions = append(c.Actions, scriptAction{Kind: "http", Query: 1,
				DelayMs: rapid.SampledFrom([]int{0, 5, 100, 600}).Draw(t, "overDelay")})
		}
	}
	return c
}

const (
	lifeQuiesceMs    = 150_000
	lifeQuiesceMaxMs = 600_000 // only while queries still make progress (loaded machine)
	lifeSettleMs     = 12_000
	lifeSettleMaxMs  = 90_000 // only while goroutines of finished queries are still moving
)

// timedOutOutcome: the query was ended by the server's own query timeout.
func timedOutOutcome(s string) bool {
	return s == "ws:TIMEOUT" || (strings.HasPrefix(s, "error:") && strings.Contains(s, "query timed out"))
}

func terminalOutcome(s string) bool {
	switch {
	case s == "response", s == "cancelled", strings.HasPrefix(s, "error:"):
		return true
	case s == "ws:COMPLETE", s == "ws:CANCELLED", s == "ws:TIMEOUT", strings.HasPrefix(s, "ws:error:"):
		return true
	}
	return false
}

func checkLife(cs *lifeCase, o *pt.Obs) error {
	lo, hi := tsBounds(cs.DS.Events)
	queries := append([]string(nil), cs.Queries...)
	for i, q := range queries {
		if id := knownExecFinding(execQuery{"spl", q}); id != "" {
			// same exclusion as in sub-check (b): the query class is an open finding
			o.Known(id)
			queries[i] = "* | head 1"
		}
	}
	req := scriptReq{Index: execIndex, Start: lo, End: hi, Queries: queries, Actions: cs.Actions, QuiesceMs: lifeQuiesceMs, SettleMs: lifeSettleMs,
		QuiesceMaxMs: lifeQuiesceMaxMs, SettleMaxMs: lifeSettleMaxMs, ServerTimeoutSecs: cs.ServerTimeoutSecs}
	body, _ := json.Marshal(&req)
	for _, a := range cs.Actions {
		o.Class("action_" + a.Kind)
		if a.Kind == "burst" && a.N >= 60 {
			o.Class("burst_beyond_limit")
		}
	}
	opts := sut.Options{Timeout: time.Duration(lifeQuiesceMaxMs+lifeSettleMaxMs+60_000) * time.Millisecond,
		Env: map[string]string{"GOMAXPROCS": fmt.Sprint(cs.MaxProcs)}}
	if cs.ServerTimeoutSecs > 0 {
		o.Class(fmt.Sprintf("server_timeout_%ds", cs.ServerTimeoutSecs))
		opts.Env["VERIF_QUERY_TIMEOUT_SECS"] = fmt.Sprint(cs.ServerTimeoutSecs)
	} else {
		o.Class("server_timeout_default")
	}
	return pt.WithWorker(opts, func(c *sut.Client) error {
		if err := ingest(c, cs.DS, 0, false); err != nil {
			return pt.Inconclusivef("ingest: %v", err)
		}
		var rep scriptReport
		err := c.Call(&sut.Req{Op: "c17_script", Body: body}, &rep)
		switch {
		case errors.Is(err, sut.ErrWorkerDied):
			return fmt.Errorf("server process exited during the lifecycle sequence: %s", pt.CrashDetail(c))
		case errors.Is(err, sut.ErrTimeout):
			return fmt.Errorf("lifecycle sequence did not finish (hang); goroutines:\n%s", hangSummary(c.Stderr()))
		case err != nil:
			var oe *sut.OpError
			if errors.As(err, &oe) && strings.HasPrefix(oe.Msg, "PANIC:") {
				return fmt.Errorf("panic in a lifecycle entry point (CancelQuery/DeleteQuery/StartQuery): %s", clipStr(oe.Msg, 2500))
			}
			return pt.Inconclusivef("script: %v", err)
		}
		if cs.ServerTimeoutSecs > 0 && rep.TimeoutSecsAtStart != cs.ServerTimeoutSecs {
			return pt.Inconclusivef("the worker runs with queryTimeoutSecs=%d, the case asks for %d", rep.TimeoutSecsAtStart, cs.ServerTimeoutSecs)
		}
		o.Max("max_active", int64(rep.MaxActive))
		o.Max("max_waiting", int64(rep.MaxWaiting))
		o.Count("started", int64(len(rep.Started)))
		if uint64(cs.MaxProcs) != rep.Limit {
			o.Class("limit_differs_from_gomaxprocs")
		}
		if rep.MaxWaiting > 0 {
			o.Class("waiting_queue_used")
		}
		cancelRunning, timedOut, timedOutHTTP := 0, 0, 0
		for _, sq := range rep.Started {
			if sq.CancelWhileRunning {
				cancelRunning++
			}
			if sq.Returned && timedOutOutcome(sq.Outcome) {
				timedOut++
				o.Class("outcome_timed_out_" + sq.Mode)
				if sq.Mode == "http" {
					timedOutHTTP++
				}
			}
			if sq.StartedDuringCancl {
				o.Class("started_during_cancel")
			}
			if sq.Returned {
				oc := sq.Outcome
				if i := strings.Index(oc, ":"); i > 0 && !strings.HasPrefix(oc, "ws:") {
					oc = oc[:i]
				} else if strings.HasPrefix(oc, "ws:error:") {
					oc = "ws:error"
				}
				o.Class("outcome_" + oc)
			}
		}
		if cancelRunning > 0 {
			o.Class("cancel_while_running")
			o.NonTrivial()
		}
		o.Count("queries_ended_by_timeout", int64(timedOut))
		if cs.ServerTimeoutSecs > 0 {
			o.Count("queries_ended_by_server_config_timeout", int64(timedOut))
			o.Count("http_queries_ended_by_server_config_timeout", int64(timedOutHTTP))
			if timedOutHTTP > 0 {
				o.Class("http_query_ran_into_server_timeout")
				o.NonTrivial()
			}
		}
		if p := os.Getenv("C17_LINGER_LOG"); p != "" && rep.SettleWaitedMs > 1000 {
			// triage aid (off by default): which sequences leave goroutines winding down for > 1 s
			if f, err := os.OpenFile(p, os.O_APPEND|os.O_CREATE|os.O_WRONLY, 0o644); err == nil {
				cj, _ := json.Marshal(cs)
				rj, _ := json.Marshal(&rep)
				fmt.Fprintf(f, "{\"case\":%s,\"report\":%s}\n", cj, rj)
				f.Close()
			}
		}
		o.Max("settle_waited_ms", rep.SettleWaitedMs)
		for fn, ms := range rep.Lingered {
			// which goroutines of finished queries were still winding down at the first dumps, and for how long
			o.Max("linger_ms "+strings.TrimPrefix(fn, "github.com/siglens/siglens/pkg/"), ms)
		}
		for fn, n := range rep.OtherNew {
			o.Max("other_new_goroutines "+strings.TrimPrefix(fn, "github.com/siglens/siglens/pkg/"), int64(n))
		}
		if rep.Final.Goroutines > rep.Baseline.Goroutines {
			o.Max("final_goroutines_above_baseline", int64(rep.Final.Goroutines-rep.Baseline.Goroutines))
		}
		o.Count("goroutine_dumps_compared", int64(rep.DumpsCompared))
		o.Max("baseline_dump_goroutines", int64(rep.BaselineDumpSize))
		// 1. admission limit
		if uint64(rep.MaxActive) > rep.Limit {
			return fmt.Errorf("admission limit exceeded: %d queries listed as running at one sample, MAX_RUNNING_QUERIES=%d", rep.MaxActive, rep.Limit)
		}
		// 2. every started query ends
		if rep.NotReturned > 0 && !rep.Stuck {
			// not a verdict: the queries (or their goroutines) were still moving when the time budget ended
			return pt.Inconclusivef("%d of %d started queries had not returned after %d s but were still making progress (time budget; loaded machine?)",
				rep.NotReturned, len(rep.Started), rep.QuiesceWaitedMs/1000)
		}
		if rep.NotReturned > 0 {
			var sb strings.Builder
			n := 0
			for _, sq := range rep.Started {
				if !sq.Returned && n < 5 {
					fmt.Fprintf(&sb, "  #%d mode=%s qid=%d query=%q cancelRequested=%v startedDuringCancel=%v states=%s\n", sq.Seq, sq.Mode, sq.Qid,
						cs.Queries[sq.Query%len(cs.Queries)], sq.CancelRequested, sq.StartedDuringCancl, sq.States)
					n++
				}
			}
			return fmt.Errorf("%d of %d started queries did not return within %d s and nothing of any query has moved during the last %d s:\n%sfinal tables: active=%d waiting=%d; goroutines:\n%s",
				rep.NotReturned, len(rep.Started), rep.QuiesceWaitedMs/1000, quiesceStuckMs/1000, sb.String(), rep.Final.Active, rep.Final.Waiting, rep.GoroutineDump)
		}
		for _, sq := range rep.Started {
			if !terminalOutcome(sq.Outcome) && (strings.HasPrefix(sq.Outcome, "ws:no-terminal-state-in-time") || strings.HasPrefix(sq.Outcome, "ws:dial-error") ||
				(strings.HasPrefix(sq.Outcome, "ws:closed-without-terminal-state:") && strings.Contains(sq.Outcome, "timeout"))) {
				// the client side of the harness gave up (read deadline / handshake timeout): not an observation of the server
				return pt.Inconclusivef("websocket client of query #%d gave up: %s", sq.Seq, sq.Outcome)
			}
			if !terminalOutcome(sq.Outcome) {
				return fmt.Errorf("query #%d (mode=%s, %q) ended without a terminal state: outcome=%q states=%s", sq.Seq, sq.Mode,
					cs.Queries[sq.Query%len(cs.Queries)], sq.Outcome, sq.States)
			}
		}
		// 3. tables drained
		if rep.Final.Active != 0 || rep.Final.Waiting != 0 {
			return fmt.Errorf("all %d queries have returned, yet %d s later the tables still list active=%d waiting=%d; goroutines:\n%s",
				len(rep.Started), rep.SettleWaitedMs/1000, rep.Final.Active, rep.Final.Waiting, rep.GoroutineDump)
		}
		// 4. goroutines back to the baseline
		if rep.Final.Goroutines > rep.Baseline.Goroutines+goroutineSlack {
			return fmt.Errorf("goroutines not released: baseline %d, %d s after all %d queries ended (%d cancelled while running) still %d (slack %d):\n%s",
				rep.Baseline.Goroutines, rep.SettleWaitedMs/1000, len(rep.Started), cancelRunning, rep.Final.Goroutines, goroutineSlack, rep.GoroutineDump)
		}
		// 5. exact: no goroutine started since the baseline dump (taken before the first query) has
		// a frame in a per-query package. A goroutine counts as staying when it is in a waiting state
		// with an unchanged stack for >= 3 s at the end of the settle period (>= 12 s after the last
		// query returned). While any goroutine of a finished query still moves (residual work) the
		// script waits up to 90 s; if one still moves then, the case is inconclusive as a whole (a
		// waiting goroutine may depend on a moving one).
		if len(rep.Leaked) > 0 {
			var sb strings.Builder
			staying := 0
			for _, lg := range rep.Leaked {
				if lg.Waiting && lg.StableMs >= leakStableMs {
					staying++
					if staying <= 6 {
						fmt.Fprintf(&sb, "--- goroutine %d [%s], unchanged for %d ms, in %s:\n%s\n", lg.ID, lg.State, lg.StableMs, lg.Func, lg.Stack)
					}
				}
			}
			if staying == 0 || rep.LeakedMoving > 0 {
				lg := rep.Leaked[0]
				return pt.Inconclusivef("%d goroutine(s) of finished queries are still moving %d s after the last query returned (residual work, e.g. [%s] %s)",
					len(rep.Leaked), rep.SettleWaitedMs/1000, lg.State, lg.Func)
			}
			o.Class("leaked_query_goroutine")
			return fmt.Errorf("%d goroutine(s) of finished queries stay: all %d queries have returned (%d ended by the query timeout [%d over the HTTP entry point], %d cancelled while running; queryTimeoutSecs=%d), "+
				"tables empty, yet %d s later these goroutines, started after the baseline dump (%d goroutines, taken before the first query), are still blocked in per-query code (%d dumps compared):\n%s",
				staying, len(rep.Started), timedOut, timedOutHTTP, cancelRunning, rep.TimeoutSecsAtStart, rep.SettleWaitedMs/1000, rep.BaselineDumpSize, rep.DumpsCompared, sb.String())
		}
		return nil
	})
}

func TestC17Lifecycle(t *testing.T) { pt.RunProp(t, "C17", genLifeCase, checkLife) }
