package c17

import (
	"runtime"
	"strconv"
	"strings"
)

// Exact resource oracle of the lifecycle sub-check: after quiescence no goroutine that was
// started since the baseline dump (= before the first query) may have a frame in the packages a
// query executes in. Goroutine ids are never reused by the Go runtime, so "present in the
// baseline dump" identifies the long-lived background loops started at initialisation.

const siglensPkgPrefix = "github.com/siglens/siglens/pkg/"

// perQueryPkgs lists the packages (relative to siglensPkgPrefix) in which the goroutines of a
// query run: the request/websocket handlers and the state multiplexer (ast/pipesearch/...), the
// query goroutine root (segment.ExecuteQueryInternalNewPipeline), admission/timeout/cleanup
// (segment/query: setupTimeoutCancelFunc, ...), the processor chain and its stream goroutines
// (segment/query/processor), the per-query ticker (segment/query/summary), the block-search
// workers (segment/search) and what those call. A trailing "/" means "and every sub-package".
var perQueryPkgs = []string{
	"ast/",
	"segment", // package segment itself (segexecution.go)
	"segment/query", "segment/query/",
	"segment/search", "segment/search/",
	"segment/aggregations", "segment/aggregations/",
	"segment/results/",
	"segment/reader/",
	"segment/structs",
	"segment/utils",
	"segment/sortindex",
}

// funcPackage returns the import path of the package of a fully qualified function name as it
// appears in a goroutine dump, e.g.
// github.com/siglens/siglens/pkg/ast/pipesearch/multiplexer.(*QueryStateMultiplexer).handleData
func funcPackage(fn string) string {
	slash := strings.LastIndexByte(fn, '/')
	dot := strings.IndexByte(fn[slash+1:], '.')
	if dot < 0 {
		return fn
	}
	return fn[:slash+1+dot]
}

func isPerQueryFunc(fn string) bool {
	pkg := funcPackage(fn)
	if !strings.HasPrefix(pkg, siglensPkgPrefix) {
		return false
	}
	rel := pkg[len(siglensPkgPrefix):]
	for _, p := range perQueryPkgs {
		if strings.HasSuffix(p, "/") {
			if strings.HasPrefix(rel, p) {
				return true
			}
		} else if rel == p {
			return true
		}
	}
	return false
}

type goroutineInfo struct {
	ID      uint64
	State   string   // "chan send", "select", "running", ... (without the wait duration)
	Funcs   []string // function names, innermost first; the creator is the last entry ("created by" removed)
	Sig     string   // state + every function and file:line: equal in two dumps = has not moved
	Text    string   // the block as printed by the runtime
	Query   string   // first function of a per-query package ("" = none)
	Siglens string   // first function of any siglens package ("" = none)
	Waiting bool     // not running/runnable
}

// allGoroutines takes a dump of every goroutine of this process (runtime.Stack, all=true).
func allGoroutines() []goroutineInfo {
	size := 1 << 20
	var buf []byte
	for {
		buf = make([]byte, size)
		n := runtime.Stack(buf, true)
		if n < size || size >= 256<<20 {
			buf = buf[:n]
			break
		}
		size *= 4
	}
	return parseGoroutineDump(string(buf))
}

func parseGoroutineDump(dump string) []goroutineInfo {
	var out []goroutineInfo
	for _, blk := range strings.Split(dump, "\n\n") {
		blk = strings.TrimSpace(blk)
		if !strings.HasPrefix(blk, "goroutine ") {
			continue
		}
		lines := strings.Split(blk, "\n")
		head := lines[0]
		rest := head[len("goroutine "):]
		sp := strings.IndexByte(rest, ' ')
		if sp < 0 {
			continue
		}
		id, err := strconv.ParseUint(rest[:sp], 10, 64)
		if err != nil {
			continue
		}
		g := goroutineInfo{ID: id, Text: blk}
		if i, j := strings.IndexByte(head, '['), strings.LastIndexByte(head, ']'); i >= 0 && j > i {
			g.State = head[i+1 : j]
			if c := strings.IndexByte(g.State, ','); c >= 0 {
				g.State = g.State[:c] // drop ", 2 minutes" / ", locked to thread"
			}
		}
		g.Waiting = !(strings.HasPrefix(g.State, "running") || strings.HasPrefix(g.State, "runnable"))
		var sig strings.Builder
		sig.WriteString(g.State)
		for _, l := range lines[1:] {
			if strings.HasPrefix(l, "\t") {
				// "\t/path/file.go:123 +0x1c5": keep file:line
				f := strings.TrimSpace(l)
				if k := strings.IndexByte(f, ' '); k > 0 {
					f = f[:k]
				}
				sig.WriteString("@" + f)
				continue
			}
			fn := l
			if strings.HasPrefix(fn, "created by ") {
				fn = strings.TrimPrefix(fn, "created by ")
				if k := strings.Index(fn, " in goroutine "); k > 0 {
					fn = fn[:k]
				}
			} else if k := strings.LastIndexByte(fn, '('); k > 0 {
				fn = fn[:k] // drop the argument words
			}
			g.Funcs = append(g.Funcs, fn)
			sig.WriteString("|" + fn)
			if g.Query == "" && isPerQueryFunc(fn) {
				g.Query = fn
			}
			if g.Siglens == "" && strings.HasPrefix(fn, siglensPkgPrefix) {
				g.Siglens = fn
			}
		}
		g.Sig = sig.String()
		out = append(out, g)
	}
	return out
}
