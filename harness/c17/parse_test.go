package c17

import (
	"fmt"
	"io"
	"os"
	"regexp"
	"runtime"
	"runtime/debug"
	"strconv"
	"strings"
	"sync"
	"syscall"
	"testing"
	"time"

	"github.com/siglens/siglens/pkg/ast/pipesearch"
	esquery "github.com/siglens/siglens/pkg/es/query"
	"github.com/siglens/siglens/pkg/integrations/prometheus/promql"
	"github.com/siglens/siglens/pkg/segment/structs"
	log "github.com/sirupsen/logrus"
	"golang.org/x/sys/unix"
	"pgregory.net/rapid"

	"verifharness/pt"
)

// C17 (a) — parsers: every input is answered with (plan | error), never a panic, in bounded CPU
// time, and the same text always yields the same plan.

// Fixed request parameters: no time-of-parse value enters through the arguments.
const (
	fixQid     = uint64(7)
	fixEndMs   = uint64(1_700_000_000_000)
	fixStartMs = fixEndMs - 3_600_000
)

type parseCase struct {
	Lang   string `json:"lang"`   // spl | pipeql | logql | sql | dsl | dslod | promql
	B      []byte `json:"b"`      // exact input bytes (base64 in JSON)
	Text   string `json:"text"`   // readable copy of B (lossy for invalid UTF-8); not used by the check
	Origin string `json:"origin"` // grammar | mutated | seed | seedmut | bytes | string | hostile | fuzz
	Scroll string `json:"scroll,omitempty"`
}

func newParseCase(lang, origin string, b []byte) *parseCase {
	if len(b) > maxInput {
		b = b[:maxInput]
	}
	return &parseCase{Lang: lang, B: b, Text: string(b), Origin: origin}
}

// ---- calling the entry points the way the handlers do --------------------------------------

type parseOutcome struct {
	ok        bool
	errText   string
	dump      string
	panicked  bool
	panicText string
	cpu       time.Duration
}

// parseOnce runs one entry point on the calling goroutine and converts the result into text.
func parseOnce(lang string, b []byte, scroll string) (out parseOutcome) {
	defer func() {
		if r := recover(); r != nil {
			out.panicked = true
			out.panicText = fmt.Sprintf("%v\n%s", r, trimStack(debug.Stack()))
		}
	}()
	text := string(b)
	switch lang {
	case "spl":
		// spl.Parse is reached the way production reaches it: through parsePipeSearch, on the
		// request path of ParseAndExecutePipeRequest / ProcessPipeSearchWebsocket / alerts.
		node, aggs, idx, err := pipesearch.ParseRequest(text, fixStartMs, fixEndMs, fixQid, "Splunk QL", "c17idx")
		if err == nil {
			err = structs.CheckUnsupportedFunctions(aggs)
		}
		if err != nil {
			out.errText = err.Error()
			return
		}
		out.ok = true
		out.dump = dumpValue([]interface{}{node, aggs, idx})
	case "pipeql", "logql", "sql":
		ql := map[string]string{"pipeql": "Pipe QL", "logql": "Log QL", "sql": "SQL"}[lang]
		node, aggs, idx, err := pipesearch.ParseRequest(text, fixStartMs, fixEndMs, fixQid, ql, "c17idx")
		if err != nil {
			out.errText = err.Error()
			return
		}
		out.ok = true
		if lang == "sql" {
			// ConvertToASTNodeSQL stamps its own wall-clock time range (now-90d .. now) on the
			// node, ignoring the requested epochs: not part of the text's plan.
			out.dump = dumpValue([]interface{}{node, aggs, idx}, "skip:TimeRange")
		} else {
			out.dump = dumpValue([]interface{}{node, aggs, idx})
		}
	case "dsl", "dslod":
		// pkg/es/reader ProcessSearchRequest always passes the scroll URL parameter (possibly "").
		var node *structs.ASTNode
		var aggs *structs.QueryAggregators
		var size uint64
		var err error
		if lang == "dsl" {
			node, aggs, size, _, err = esquery.ParseRequest(b, fixQid, false, scroll)
		} else {
			node, aggs, size, _, err = esquery.ParseOpenDistroRequest(b, fixQid, false, scroll)
		}
		if err != nil {
			out.errText = err.Error()
			return
		}
		out.ok = true
		// The scroll record (random id, expiry time) is excluded from the plan. The DSL has no
		// start/end arguments: match_all and "now-1h" style ranges take the wall clock at parse
		// time, so the content of TimeRange is excluded as well.
		// ProcessSearchRequest overwrites EarlyExit from the URL parameter right after parsing.
		if aggs != nil {
			aggs.EarlyExit = true
		}
		// The members of a JSON object reach the parser through a Go map, i.e. in varying
		// order; the criteria of one AND/OR/NOT condition and its nested nodes are commutative,
		// so their order is not part of the plan.
		out.dump = dumpValue([]interface{}{node, aggs, size}, "skip:TimeRange", "unordered:FilterCriteria", "unordered:ASTNode")
	case "promql":
		reqs, vt, arith, err := promql.ConvertPromQLToMetricsQuery(text, uint32(fixStartMs/1000), uint32(fixEndMs/1000), 0)
		if err != nil {
			out.errText = err.Error()
			return
		}
		out.ok = true
		out.dump = dumpValue([]interface{}{reqs, string(vt), arith})
	default:
		out.errText = "unknown language " + lang
	}
	return
}

func trimStack(b []byte) string {
	s := string(b)
	// drop the frames of recover/debug.Stack itself, keep it short
	lines := strings.Split(s, "\n")
	if len(lines) > 40 {
		lines = lines[:40]
	}
	return strings.Join(lines, "\n")
}

// ---- bounded-time runner ---------------------------------------------------------------------
//
// Parsing runs on a dedicated goroutine locked to its OS thread. The caller waits; while it
// waits it reads the CPU time consumed by that thread (/proc/self/task/<tid>/stat). Once the
// thread has burnt more than the limit without returning, the runner is abandoned (a goroutine
// cannot be killed) and the outcome is "over the time bound". CPU time of the thread, not wall
// time, decides, so load on the machine does not matter.

type parseJob struct {
	lang, scroll string
	b            []byte
	resp         chan parseOutcome
}

type parseRunner struct {
	jobs chan *parseJob
	tid  int
}

var (
	runnerMu  sync.Mutex
	curRunner *parseRunner
	abandoned int
)

func abandonCap() int {
	if surveyFile() != "" {
		return 200
	}
	return 6
}

func cpuLimit() time.Duration {
	if v := os.Getenv("C17_CPU_LIMIT_S"); v != "" {
		if f, err := strconv.ParseFloat(v, 64); err == nil && f > 0 {
			return time.Duration(f * float64(time.Second))
		}
	}
	return 30 * time.Second
}

func threadCPU() time.Duration {
	var ts unix.Timespec
	if err := unix.ClockGettime(unix.CLOCK_THREAD_CPUTIME_ID, &ts); err != nil {
		return 0
	}
	return time.Duration(ts.Nano())
}

func newRunner() *parseRunner {
	r := &parseRunner{jobs: make(chan *parseJob)}
	ready := make(chan int)
	go func() {
		runtime.LockOSThread()
		ready <- syscall.Gettid()
		for j := range r.jobs {
			c0 := threadCPU()
			out := parseOnce(j.lang, j.b, j.scroll)
			out.cpu = threadCPU() - c0
			j.resp <- out
		}
	}()
	r.tid = <-ready
	return r
}

var clkTck = 100.0

// taskCPU reads utime+stime of one thread of this process.
func taskCPU(tid int) (time.Duration, bool) {
	b, err := os.ReadFile(fmt.Sprintf("/proc/self/task/%d/stat", tid))
	if err != nil {
		return 0, false
	}
	s := string(b)
	i := strings.LastIndexByte(s, ')')
	if i < 0 {
		return 0, false
	}
	f := strings.Fields(s[i+1:])
	if len(f) < 13 {
		return 0, false
	}
	ut, e1 := strconv.ParseFloat(f[11], 64)
	st, e2 := strconv.ParseFloat(f[12], 64)
	if e1 != nil || e2 != nil {
		return 0, false
	}
	return time.Duration((ut + st) / clkTck * float64(time.Second)), true
}

var errOverTime = fmt.Errorf("over the CPU time bound")

// runBounded parses once under the CPU bound. overTime=true means the parse did not return
// within the bound (the runner thread keeps spinning and is abandoned).
func runBounded(lang string, b []byte, scroll string) (out parseOutcome, overTime bool, err error) {
	runnerMu.Lock()
	defer runnerMu.Unlock()
	if curRunner == nil {
		if abandoned >= abandonCap() {
			return out, false, fmt.Errorf("too many abandoned parser threads in this process")
		}
		curRunner = newRunner()
	}
	r := curRunner
	base, ok := taskCPU(r.tid)
	if !ok {
		return out, false, fmt.Errorf("cannot read thread CPU time")
	}
	j := &parseJob{lang: lang, scroll: scroll, b: b, resp: make(chan parseOutcome, 1)}
	r.jobs <- j
	limit := cpuLimit()
	start := time.Now()
	tick := 5 * time.Millisecond
	for {
		select {
		case out = <-j.resp:
			return out, out.cpu > limit, nil
		case <-time.After(tick):
		}
		if tick < 250*time.Millisecond {
			tick *= 2
		}
		now, ok := taskCPU(r.tid)
		if ok && now-base > limit+time.Second {
			curRunner = nil
			abandoned++
			out.cpu = now - base
			return out, true, nil
		}
		if time.Since(start) > 20*limit+time.Minute {
			// not burning CPU yet not returning: blocked or starved; cannot decide here
			curRunner = nil
			abandoned++
			return out, false, fmt.Errorf("parse neither returned nor consumed CPU (cpu=%v wall=%v)", now-base, time.Since(start))
		}
	}
}

// ---- the oracle ------------------------------------------------------------------------------

var timeWords = regexp.MustCompile(`(?i)earliest|latest|gentimes|aligntime|now`)

var pegErrPos = regexp.MustCompile(`^\d+:\d+ \((\d+)\)`)

func quoteInput(b []byte) string {
	s := strconv.Quote(string(b))
	if len(s) > 600 {
		s = s[:300] + " … " + s[len(s)-200:] + fmt.Sprintf(" (%d bytes)", len(b))
	}
	return s
}

var silenceOnce sync.Once

func silenceLogs() {
	silenceOnce.Do(func() {
		log.SetOutput(io.Discard)
		log.SetLevel(log.PanicLevel)
	})
}

// isKnownParseFinding reports whether the case belongs to an input class listed as an open
// finding in known_findings.jsonl (predicates are stated over the input only).
func isKnownParseFinding(c *parseCase) string {
	for _, k := range knownParsePredicates {
		if k.lang[c.Lang] && pt.KnownFindingOpen(k.id) && k.match(c) {
			return k.id
		}
	}
	return ""
}

func checkParse(c *parseCase, o *pt.Obs) error {
	silenceLogs()
	if len(c.B) > maxInput {
		return pt.Inconclusivef("input longer than %d bytes is outside the domain", maxInput)
	}
	o.Class("lang_" + c.Lang)
	o.Class("origin_" + c.Origin)
	o.Class("lang_" + c.Lang + "/origin_" + c.Origin)
	if id := isKnownParseFinding(c); id != "" {
		o.Known(id)
		o.Class("excluded_known_finding")
		return nil
	}
	out, over, err := runBounded(c.Lang, c.B, c.Scroll)
	if err != nil {
		return pt.Inconclusivef("%v", err)
	}
	if over && surveyFile() != "" {
		surveyRecord(c, "overtime", fmt.Sprint(out.cpu))
		return nil
	}
	if over {
		// re-measure once in a fresh thread before reporting
		out2, over2, err2 := runBounded(c.Lang, c.B, c.Scroll)
		if err2 != nil || !over2 {
			return pt.Inconclusivef("time bound exceeded once (cpu %v) but not on re-measurement (cpu %v, err %v): %s", out.cpu, out2.cpu, err2, quoteInput(c.B))
		}
		return fmt.Errorf("unbounded parse time: %s parser consumed more than %v CPU (measured %v and %v, did not return) on a %d-byte input: %s",
			c.Lang, cpuLimit(), out.cpu, out2.cpu, len(c.B), quoteInput(c.B))
	}
	o.Max("cpu_us_max/"+c.Lang, out.cpu.Microseconds())
	if out.cpu > time.Second {
		o.Class("slow_over_1s")
		if surveyFile() != "" {
			surveyRecord(c, "slow", fmt.Sprint(out.cpu))
		}
	}
	if out.panicked && surveyFile() != "" {
		surveyRecord(c, "panic", panicSite(out.panicText))
		return nil
	}
	if out.panicked {
		return fmt.Errorf("%s parser panicked (no recover between this entry point and the HTTP server: the process would exit) on input %s\npanic: %s",
			c.Lang, quoteInput(c.B), out.panicText)
	}
	// classification
	ntoks := countTokens(string(c.B))
	semantic := false
	if out.ok {
		o.Class("parse_ok")
		o.Class("lang_" + c.Lang + "/parse_ok")
		semantic = true
	} else {
		o.Class("parse_error")
		pos := -1
		if m := pegErrPos.FindStringSubmatch(out.errText); m != nil {
			pos, _ = strconv.Atoi(m[1])
		}
		if pos >= 0 && pos <= len(c.B) {
			if countTokens(string(c.B[:pos])) >= 3 {
				semantic = true
			}
		} else if ntoks >= 3 {
			semantic = true
		}
		if strings.Contains(out.errText, "runtime error") || strings.Contains(out.errText, "interface conversion") {
			// pigeon's parser recovers panics of semantic actions and returns them as errors
			o.Class("error_is_recovered_action_panic")
		}
		if strings.Contains(out.errText, "max number of expresssions parsed") {
			o.Class("error_is_parse_budget")
		}
	}
	if semantic {
		o.Class("semantic_action_reached")
		o.NonTrivial()
	}
	// same text => same plan. DSL requests are decoded into Go maps whose iteration order
	// varies from call to call, so they are parsed more often.
	repeats := 1
	if c.Lang == "dsl" || c.Lang == "dslod" {
		// Go starts the iteration of a small map at a random one of 8 slots: two orders of a
		// two-key object occur with probability ~5/6 and ~1/6, hence the many repetitions.
		repeats = 31
	}
	timeRel := (c.Lang == "spl" || c.Lang == "pipeql") && timeWords.Match(c.B)
	if timeRel {
		// earliest=/latest=/gentimes/aligntime/now are resolved against the wall clock at parse
		// time by design: the plan legitimately differs between two parses.
		o.Class("time_relative_plan_not_compared")
	}
	if out.cpu > 500*time.Millisecond {
		// a second parse of a slow input only costs time; determinism is exercised on the rest
		o.Class("slow_plan_not_compared")
		repeats = 0
	}
	for i := 0; i < repeats; i++ {
		out2, over2, err := runBounded(c.Lang, c.B, c.Scroll)
		if err != nil || over2 {
			return pt.Inconclusivef("parse #%d: over=%v err=%v", i+2, over2, err)
		}
		if out2.panicked {
			if surveyFile() != "" {
				surveyRecord(c, "panic", panicSite(out2.panicText))
				return nil
			}
			return fmt.Errorf("%s parser panicked (no recover between this entry point and the HTTP server: the process would exit) on parse #%d of %s\npanic: %s",
				c.Lang, i+2, quoteInput(c.B), out2.panicText)
		}
		if out.ok != out2.ok {
			if surveyFile() != "" {
				surveyRecord(c, "outcome-differs", out.errText+out2.errText)
				return nil
			}
			return fmt.Errorf("same text, different outcome: %s parse #1 ok=%v err=%q, parse #%d ok=%v err=%q; input %s",
				c.Lang, out.ok, out.errText, i+2, out2.ok, out2.errText, quoteInput(c.B))
		}
		if out.ok && !timeRel && out.dump != out2.dump {
			if surveyFile() != "" {
				surveyRecord(c, "plan-differs", strings.ReplaceAll(firstDiff(out.dump, out2.dump), "\n", " "))
				return nil
			}
			return fmt.Errorf("same text, different plan: %s parse #1 and #%d differ %s\ninput %s", c.Lang, i+2, firstDiff(out.dump, out2.dump), quoteInput(c.B))
		}
	}
	if out.ok && !timeRel && repeats > 0 {
		o.Class("plan_compared")
	}
	return nil
}

// ---- generation ------------------------------------------------------------------------------

var parseLangs = []string{"spl", "spl", "spl", "spl", "pipeql", "sql", "sql", "dsl", "dsl", "dslod", "promql", "promql", "logql"}

func genValid(t *rapid.T, lang string) []byte {
	switch lang {
	case "spl":
		return []byte(genSPL(t, defaultFields, false, false))
	case "pipeql", "logql":
		return []byte(genPipeQL(t, defaultFields))
	case "sql":
		return []byte(genSQL(t, defaultFields))
	case "dsl", "dslod":
		return genDSL(t, defaultFields)
	case "promql":
		return []byte(genPromQL(t))
	}
	return nil
}

func seedLang(lang string) string {
	switch lang {
	case "dslod":
		return "dsl"
	case "logql":
		return "pipeql"
	}
	return lang
}

var hostileOnce sync.Once
var hostileByLang map[string][]string

func hostileFor(lang string) []string {
	hostileOnce.Do(func() {
		hostileByLang = map[string][]string{}
		for _, h := range hostileInputs() {
			hostileByLang[h.Lang] = append(hostileByLang[h.Lang], h.Text)
		}
		hostileByLang["dslod"] = hostileByLang["dsl"]
		hostileByLang["logql"] = hostileByLang["pipeql"]
	})
	return hostileByLang[lang]
}

var punctRunes = []rune("()[]{}|\"'`\\=<>!,.*%+-/:;@#$&^~? \t\nabcANDORNOTby019eE_\x00é")

func genParseCase(t *rapid.T) *parseCase {
	lang := rapid.SampledFrom(parseLangs).Draw(t, "lang")
	sp := seeds()[seedLang(lang)]
	var c *parseCase
	switch k := rapid.IntRange(0, 99).Draw(t, "origin"); {
	case k < 30:
		c = newParseCase(lang, "grammar", genValid(t, lang))
	case k < 55:
		base := string(genValid(t, lang))
		other := rapid.SampledFrom(sp).Draw(t, "otherSeed")
		c = newParseCase(lang, "mutated", []byte(mutate(t, base, other)))
	case k < 62:
		c = newParseCase(lang, "seed", []byte(rapid.SampledFrom(sp).Draw(t, "seed")))
	case k < 80:
		base := rapid.SampledFrom(sp).Draw(t, "seedBase")
		other := rapid.SampledFrom(sp).Draw(t, "seedOther")
		c = newParseCase(lang, "seedmut", []byte(mutate(t, base, other)))
	case k < 86:
		n := rapid.SampledFrom([]int{8, 32, 128, 1024, maxInput}).Draw(t, "maxBytes")
		c = newParseCase(lang, "bytes", rapid.SliceOfN(rapid.Byte(), 0, n).Draw(t, "bytes"))
	case k < 99:
		n := rapid.SampledFrom([]int{8, 32, 128, 1024}).Draw(t, "maxRunes")
		var s string
		if rapid.Bool().Draw(t, "punct") {
			s = string(rapid.SliceOfN(rapid.SampledFrom(punctRunes), 0, n).Draw(t, "punctStr"))
		} else {
			s = rapid.StringN(0, n, maxInput).Draw(t, "str")
		}
		c = newParseCase(lang, "string", []byte(s))
	default:
		hs := hostileFor(lang)
		c = newParseCase(lang, "hostile", []byte(rapid.SampledFrom(hs).Draw(t, "hostile")))
	}
	if (lang == "dsl" || lang == "dslod") && rapid.IntRange(0, 9).Draw(t, "scrollParam") == 0 {
		c.Scroll = pick(t, "scroll", "1m", "5s", "x", "0", "1d")
	}
	return c
}

func TestC17Parse(t *testing.T) { pt.RunProp(t, "C17", genParseCase, checkParse) }

// TestC17Hostile enumerates every hostile constant once per language (kind "plain").
func TestC17Hostile(t *testing.T) {
	all := hostileInputs()
	var cases []*parseCase
	for _, h := range all {
		cases = append(cases, newParseCase(h.Lang, "hostile", []byte(h.Text)))
		if h.Lang == "dsl" {
			cases = append(cases, newParseCase("dslod", "hostile", []byte(h.Text)))
		}
	}
	shard, shards := pt.Shard()
	var mine []*parseCase
	for i, c := range cases {
		if i%shards == shard {
			mine = append(mine, c)
		}
	}
	pt.RunCases(t, "C17", func(i int) (*parseCase, bool) {
		if i >= len(mine) {
			return nil, false
		}
		return mine[i], true
	}, checkParse)
}

// ---- survey mode (triage aid, off by default) --------------------------------------------------
// With C17_SURVEY=<file> panics and time-bound overruns are appended to the file instead of
// failing the run, so that one pass lists every distinct crash site.

func surveyFile() string { return os.Getenv("C17_SURVEY") }

var repoFrame = regexp.MustCompile(`(?m)^\s+(/repo/[^\s]+:\d+)`)

func panicSite(stack string) string {
	if i := strings.Index(stack, "panic: "); i >= 0 {
		stack = stack[i:]
	} else if i := strings.Index(stack, "fatal error: "); i >= 0 {
		stack = stack[i:]
	}
	first := stack
	if i := strings.IndexByte(stack, '\n'); i > 0 {
		first = stack[:i]
	}
	if m := repoFrame.FindStringSubmatch(stack); m != nil {
		return m[1] + " " + first
	}
	return first
}

var surveyMu sync.Mutex

func surveyRecord(c *parseCase, kind, site string) {
	surveyMu.Lock()
	defer surveyMu.Unlock()
	f, err := os.OpenFile(surveyFile(), os.O_CREATE|os.O_APPEND|os.O_WRONLY, 0o644)
	if err != nil {
		return
	}
	defer f.Close()
	fmt.Fprintf(f, "%s\t%s\t%s\t%s\n", kind, c.Lang, site, strconv.Quote(string(c.B)))
}
