package c17

import (
	"fmt"
	"math"
	"reflect"
	"regexp"
	"sort"
	"strings"
)

// dumpValue renders any Go value (AST, aggregator chain, request structs) as canonical text:
// pointers are followed (cycles cut), map entries are sorted by their rendered key, floats are
// rendered by bit pattern, func/chan values only as nil/non-nil. Unexported fields are included.
// Two parses of the same text "yield the same plan" iff their dumps are equal.
//
// Options: "skip:T" renders structs of type name T as excluded; "unordered:T" renders slices
// whose element type is T or *T as a sorted multiset (commutative lists).
func dumpValue(v interface{}, opts ...string) string {
	var sb strings.Builder
	d := &dumper{sb: &sb, seen: map[uintptr]bool{}, skip: map[string]bool{}, unordered: map[string]bool{}}
	for _, o := range opts {
		if strings.HasPrefix(o, "skip:") {
			d.skip[strings.TrimPrefix(o, "skip:")] = true
		} else if strings.HasPrefix(o, "unordered:") {
			d.unordered[strings.TrimPrefix(o, "unordered:")] = true
		}
	}
	d.walk(reflect.ValueOf(v), 0)
	return sb.String()
}

type dumper struct {
	sb   *strings.Builder
	seen map[uintptr]bool
	n    int
	skip map[string]bool // struct type names whose content is not part of the plan
	// element type names of slices that are compared as multisets
	unordered map[string]bool
}

func (d *dumper) child(sb *strings.Builder) *dumper {
	return &dumper{sb: sb, seen: d.seen, skip: d.skip, unordered: d.unordered}
}

var regexpType = reflect.TypeOf((*regexp.Regexp)(nil))

const dumpMaxNodes = 2_000_000

func (d *dumper) walk(v reflect.Value, depth int) {
	d.n++
	if d.n > dumpMaxNodes || depth > 20000 {
		d.sb.WriteString("<truncated>")
		return
	}
	if !v.IsValid() {
		d.sb.WriteString("nil")
		return
	}
	switch v.Kind() {
	case reflect.Ptr:
		if v.IsNil() {
			d.sb.WriteString("nil")
			return
		}
		if v.Type() == regexpType && v.CanInterface() {
			fmt.Fprintf(d.sb, "regexp(%q)", v.Interface().(*regexp.Regexp).String())
			return
		}
		p := v.Pointer()
		if d.seen[p] {
			d.sb.WriteString("<cycle>")
			return
		}
		d.seen[p] = true
		d.sb.WriteString("&")
		d.walk(v.Elem(), depth+1)
		delete(d.seen, p)
	case reflect.Interface:
		if v.IsNil() {
			d.sb.WriteString("nil")
			return
		}
		e := v.Elem()
		d.sb.WriteString("(" + e.Type().String() + ")")
		d.walk(e, depth+1)
	case reflect.Struct:
		t := v.Type()
		if d.skip[t.Name()] {
			d.sb.WriteString(t.Name() + "{<excluded>}")
			return
		}
		d.sb.WriteString(t.Name() + "{")
		for i := 0; i < v.NumField(); i++ {
			f := v.Field(i)
			// zero-valued fields are omitted to keep dumps small
			if f.IsZero() {
				continue
			}
			d.sb.WriteString(t.Field(i).Name + ":")
			d.walk(f, depth+1)
			d.sb.WriteString(" ")
		}
		d.sb.WriteString("}")
	case reflect.Slice:
		if v.IsNil() {
			d.sb.WriteString("nil")
			return
		}
		fallthrough
	case reflect.Array:
		if v.Type().Elem().Kind() == reflect.Uint8 {
			b := make([]byte, v.Len())
			for i := range b {
				b[i] = byte(v.Index(i).Uint())
			}
			fmt.Fprintf(d.sb, "bytes(%q)", b)
			return
		}
		et := v.Type().Elem()
		if et.Kind() == reflect.Ptr {
			et = et.Elem()
		}
		if d.unordered[et.Name()] {
			parts := make([]string, v.Len())
			for i := range parts {
				var eb strings.Builder
				ed := d.child(&eb)
				ed.walk(v.Index(i), depth+1)
				d.n += ed.n
				parts[i] = eb.String()
			}
			sort.Strings(parts)
			d.sb.WriteString("multiset[" + strings.Join(parts, ",") + "]")
			return
		}
		d.sb.WriteString("[")
		for i := 0; i < v.Len(); i++ {
			d.walk(v.Index(i), depth+1)
			d.sb.WriteString(",")
		}
		d.sb.WriteString("]")
	case reflect.Map:
		if v.IsNil() {
			d.sb.WriteString("nil")
			return
		}
		type kv struct{ k, v string }
		var ents []kv
		for _, k := range v.MapKeys() {
			var kb, vb strings.Builder
			kd := d.child(&kb)
			kd.walk(k, depth+1)
			vd := d.child(&vb)
			vd.walk(v.MapIndex(k), depth+1)
			d.n += kd.n + vd.n
			ents = append(ents, kv{kb.String(), vb.String()})
		}
		sort.Slice(ents, func(i, j int) bool {
			if ents[i].k != ents[j].k {
				return ents[i].k < ents[j].k
			}
			return ents[i].v < ents[j].v
		})
		d.sb.WriteString("map[")
		for _, e := range ents {
			d.sb.WriteString(e.k + ":" + e.v + ",")
		}
		d.sb.WriteString("]")
	case reflect.String:
		fmt.Fprintf(d.sb, "%q", v.String())
	case reflect.Bool:
		fmt.Fprintf(d.sb, "%v", v.Bool())
	case reflect.Int, reflect.Int8, reflect.Int16, reflect.Int32, reflect.Int64:
		fmt.Fprintf(d.sb, "%d", v.Int())
	case reflect.Uint, reflect.Uint8, reflect.Uint16, reflect.Uint32, reflect.Uint64, reflect.Uintptr:
		fmt.Fprintf(d.sb, "%d", v.Uint())
	case reflect.Float32, reflect.Float64:
		f := v.Float()
		fmt.Fprintf(d.sb, "f%x(%g)", math.Float64bits(f), f)
	case reflect.Complex64, reflect.Complex128:
		fmt.Fprintf(d.sb, "%v", v.Complex())
	case reflect.Func, reflect.Chan, reflect.UnsafePointer:
		if v.IsNil() {
			d.sb.WriteString("nil")
		} else {
			d.sb.WriteString("<" + v.Kind().String() + ">")
		}
	default:
		d.sb.WriteString("<" + v.Kind().String() + ">")
	}
}

// firstDiff returns a short excerpt around the first position where a and b differ.
func firstDiff(a, b string) string {
	n := len(a)
	if len(b) < n {
		n = len(b)
	}
	i := 0
	for i < n && a[i] == b[i] {
		i++
	}
	lo := i - 120
	if lo < 0 {
		lo = 0
	}
	cut := func(s string) string {
		hi := i + 120
		if hi > len(s) {
			hi = len(s)
		}
		if lo > len(s) {
			return ""
		}
		return s[lo:hi]
	}
	return fmt.Sprintf("at byte %d:\n   first:  …%s…\n   second: …%s…", i, cut(a), cut(b))
}
