package c17

import (
	"os"
	"path/filepath"
	"regexp"
	"sort"
	"strconv"
	"strings"
	"sync"

	"pgregory.net/rapid"
)

const maxInput = 8192

// ---- tokens ---------------------------------------------------------------------------------

var tokenRe = regexp.MustCompile(`[A-Za-z_][A-Za-z0-9_]*|[0-9]+(?:\.[0-9]+)?|"(?:\\.|[^"\\])*"|'(?:\\.|[^'\\])*'|\s+|[<>!=]=|.`)

func tokenize(s string) []string { return tokenRe.FindAllString(s, -1) }

// countTokens counts non-blank tokens.
func countTokens(s string) int {
	n := 0
	for _, tk := range tokenize(s) {
		if strings.TrimSpace(tk) != "" {
			n++
		}
	}
	return n
}

var mutTokens = []string{"(", ")", "((", "))", "[", "]", "{", "}", "|", "||", ",", "=", "==", "!=", "<", ">", "\"", "'", "`", "\\", "\x00", "*", "%", ".", "..",
	"-", "+", "/", ":", ";", "@", "#", "$", "&", "^", "~", "?", " ", "\t", "\n", "\r\n", "```", "``` c ```",
	"AND", "OR", "NOT", "BY", "AS", "by", "as", "and", "or", "not", "IN", "in", "eval", "stats", "where", "search", "head", "tail", "sort", "dedup", "count", "if", "case",
	"null", "true", "false", "NaN", "Inf", "-Inf", "1e999", "-1e999", "99999999999999999999999999", "-9223372036854775809", "0x7fffffffffffffff", "1.7976931348623159e308",
	"4.9e-324", "0", "-0", "00", "1.", ".1", "1e", "١٢٣", "é", "漢", "\u202e", "\ufeff", "\xff", "\xc3", "\xed\xa0\x80",
	"earliest=-1h", "latest=now", "span=1h", "limit=0", "limit=-1", "limit=99999999999999999999", "window=-1", "_index=", "index=*",
	"select", "from", "where", "group by", "order by", "limit", "union", "--", "/*", "*/",
	"sum(", "rate(", "[5m]", "[5m:1m]", "offset", "by (", "without (", "{job=\"", "=~", "!~", "@",
	"\"query\":", "{\"bool\":", "{\"must\":[", "null", "[]", "{}", "[[", "]]", "{{", "}}"}

// mutate applies 1..4 token-level mutations.
func mutate(t *rapid.T, s string, other string) string {
	toks := tokenize(s)
	n := rapid.IntRange(1, 4).Draw(t, "nMut")
	for i := 0; i < n; i++ {
		if len(toks) == 0 {
			toks = []string{rapid.SampledFrom(mutTokens).Draw(t, "tokIns0")}
			continue
		}
		p := rapid.IntRange(0, len(toks)-1).Draw(t, "mutPos")
		switch rapid.IntRange(0, 11).Draw(t, "mutKind") {
		case 0: // delete
			toks = append(toks[:p:p], toks[p+1:]...)
		case 1: // duplicate
			toks = append(toks[:p+1:p+1], toks[p:]...)
		case 2: // swap with another
			q := rapid.IntRange(0, len(toks)-1).Draw(t, "swapPos")
			toks[p], toks[q] = toks[q], toks[p]
		case 3: // replace by pool token
			toks[p] = rapid.SampledFrom(mutTokens).Draw(t, "tokRep")
		case 4: // insert pool token
			tk := rapid.SampledFrom(mutTokens).Draw(t, "tokIns")
			toks = append(toks[:p:p], append([]string{tk}, toks[p:]...)...)
		case 5: // truncate
			toks = toks[:p]
		case 6: // wrap a token range in parentheses k times
			q := rapid.IntRange(p, len(toks)-1).Draw(t, "wrapEnd")
			k := rapid.SampledFrom([]int{1, 1, 2, 3, 5, 8, 40}).Draw(t, "wrapK")
			open := pick(t, "wrapOpen", "(", "(", "[", "{", "if(")
			closeTok := map[string]string{"(": ")", "[": "]", "{": "}", "if(": ",1,2)"}[open]
			mid := append([]string{strings.Repeat(open, k)}, toks[p:q+1]...)
			mid = append(mid, strings.Repeat(closeTok, k))
			toks = append(toks[:p:p], append(mid, toks[q+1:]...)...)
		case 7: // flip case
			if toks[p] == strings.ToUpper(toks[p]) {
				toks[p] = strings.ToLower(toks[p])
			} else {
				toks[p] = strings.ToUpper(toks[p])
			}
		case 8: // repeat a token range many times
			q := rapid.IntRange(p, min(len(toks)-1, p+6)).Draw(t, "repEnd")
			k := rapid.SampledFrom([]int{2, 3, 10, 100, 1000}).Draw(t, "repK")
			seg := strings.Join(toks[p:q+1], "")
			if len(seg)*k > maxInput {
				k = maxInput / (len(seg) + 1)
			}
			toks[p] = strings.Repeat(seg, max(k, 1))
		case 9: // splice the tail of another query
			ot := tokenize(other)
			if len(ot) > 0 {
				q := rapid.IntRange(0, len(ot)-1).Draw(t, "spliceFrom")
				toks = append(toks[:p:p], ot[q:]...)
			}
		case 10: // drop a closing quote/paren somewhere after p
			for j := p; j < len(toks); j++ {
				if toks[j] == ")" || toks[j] == "]" || toks[j] == "}" || (len(toks[j]) > 1 && toks[j][0] == '"') {
					if toks[j][0] == '"' {
						toks[j] = toks[j][:len(toks[j])-1]
					} else {
						toks = append(toks[:j:j], toks[j+1:]...)
					}
					break
				}
			}
		default: // replace a number/identifier by an extreme
			toks[p] = pick(t, "extreme", "99999999999999999999", "-1", "0", "1e400", strings.Repeat("9", 400), strings.Repeat("a", 300), "\"\"", "*")
		}
	}
	out := strings.Join(toks, "")
	if len(out) > maxInput {
		out = out[:maxInput]
	}
	return out
}

// ---- hostile constants -----------------------------------------------------------------------

func rep(s string, n int) string { return strings.Repeat(s, n) }

func clip(s string) string {
	if len(s) > maxInput {
		return s[:maxInput]
	}
	return s
}

type hostile struct {
	Lang string
	Text string
}

// hostileInputs lists deliberately nasty inputs per language: deep nesting in every bracketing
// construct, huge numbers, unterminated quotes, NUL, long repeats up to 8 KiB.
func hostileInputs() []hostile {
	var out []hostile
	add := func(lang string, ss ...string) {
		for _, s := range ss {
			out = append(out, hostile{lang, clip(s)})
		}
	}
	for _, lang := range []string{"spl", "pipeql"} {
		for _, n := range []int{12, 40, 300, 4000} {
			add(lang,
				rep("(", n)+"a=1"+rep(")", n),
				"a=1 | where "+rep("(", n)+"a=1"+rep(")", n),
				"a=1 | eval x="+rep("(", n)+"1"+rep(")", n),
				"a=1 | eval x=if"+rep("(", n)+"a=1,1,2"+rep(")", n),
				"a=1 | eval x="+rep("abs(", n)+"1"+rep(")", n),
				"a=1 | eval x="+rep("if(a=1,", n)+"1"+rep(",2)", n),
				"a=1 | eval x="+rep("lower(", n)+"b"+rep(")", n),
				"a=1 | stats count(eval"+rep("(", n)+"a=1"+rep(")", n)+")",
				"a=1 | head "+rep("(", n)+"a=1"+rep(")", n),
				rep("NOT ", n)+"a=1",
				"a=1 | where "+rep("NOT ", n)+"a=1",
				"a=1 | append "+rep("[ search a=1 | append ", n)+"[ search b=2 ]"+rep(" ]", n),
				rep("(", n), rep(")", n), rep("[", n), rep("((a=1) OR ", n)+"b=2"+rep(")", n),
			)
		}
		add(lang,
			"a="+rep("9", 400), "a=1e999999", "a=-"+rep("9", 4000)+"."+rep("9", 4000), "a=1 | head "+rep("9", 30), "a=1 | head limit=-1",
			"a=1 | eval x=1e400 * 1e400", "a=1 | eval x=pow(10, 999999999)", "a=1 | eval x=mvrange(0, 99999999999999)", "a=1 | bin span="+rep("9", 40)+"h timestamp",
			"a=1 | sort "+rep("9", 25)+" a", "a=1 | tail 18446744073709551616", "a=1 | timechart span=0s count", "a=1 | streamstats window="+rep("9", 20)+" count",
			`a="unterminated`, `a="x\`, `"`, `a=1 | eval x="abc`, `a=1 | rex field=a "(?<x>`, "a=1 | eval x='y", "```", "a=1 ```unterminated comment", "a=1 | eval `x`=1",
			"\x00", "a=\x001", "a=1 | eval x=\"\x00\"", "\x00|\x00", "a\x00b=1 | stats count by a\x00b", "\xff\xfe\xfd", "a=\xc3\x28", "\xef\xbb\xbfa=1",
			rep("a", maxInput), rep("a=1 OR ", 1200)+"b=2", rep("a=1 AND ", 1000)+"b=2", rep("a=1 ", 2000), "a=1"+rep(" | eval x=1", 740), "a=1"+rep(" | search b=2", 600),
			"a=1 | stats "+rep("count(a), ", 700)+"count", "a=1 | stats count by "+rep("a,", 3000)+"b", "a=1 | fields "+rep("a, ", 2500)+"b",
			"a=1 | eval x="+rep("1+", 3500)+"1", "a=1 | eval x="+rep("\"s\" . ", 1300)+"\"t\"", "a=1 | eval "+rep("x=1, ", 1500)+"y=2",
			"a=1 | where a in("+rep("1,", 3500)+"2)", "a IN ("+rep("1,", 3500)+"2)", rep("|", maxInput), rep("\"", maxInput), rep("\\", maxInput), rep(" ", maxInput),
			rep("*", maxInput), rep("=", maxInput), rep("a|", 4000), rep("\n", maxInput), "a=1 | eval x=case("+rep("a=1, 1, ", 900)+"true(), 0)",
			"a=\""+rep("x", 8000)+"\"", "a=1 | rex field=a \""+rep("(?<n>a)", 1000)+"\"", "a=1 | regex a=\""+rep("(a*)*", 1500)+"\"", "a=1 | eval x=replace(a, \""+rep("(a+)+", 1000)+"$\", \"\")",
			"earliest="+rep("-1d@d", 1500), "earliest=-"+rep("9", 30)+"y", "earliest=1 latest=-"+rep("9", 19)+"d", "| gentimes start=-"+rep("9", 18), "| gentimes start=-1 increment=0s",
			"| gentimes start=01/01/0001 end=12/31/9999 increment=1s", "a=1 | bin span=1h aligntime=-"+rep("9", 19)+"d timestamp",
			"index=* | stats count", "_index="+rep("a OR _index=", 600)+"b x=1",
		)
	}
	for _, n := range []int{12, 40, 300, 3000} {
		add("sql",
			"select a from t where "+rep("(", n)+"a=1"+rep(")", n),
			"select "+rep("(", n)+"a"+rep(")", n)+" from t",
			"select a from "+rep("(select a from ", n)+"t"+rep(")", n),
			"select "+rep("abs(", n)+"a"+rep(")", n)+" from t",
			"select a from t where "+rep("not ", n)+"a=1",
		)
		add("promql",
			rep("(", n)+"up"+rep(")", n), rep("abs(", n)+"up"+rep(")", n), rep("sum(", n)+"up"+rep(")", n), rep("-", n)+"up",
			rep("rate(", n)+"up[5m]"+rep(")", n), "up"+rep("[5m:]", n), "up "+rep("+ (up ", n)+rep(")", n),
		)
		add("dsl",
			rep(`{"query":`, n)+"1"+rep("}", n),
			`{"query":`+rep(`{"bool":{"must":[`, n)+`{"match_all":{}}`+rep(`]}}`, n)+`}`,
			`{"query":`+rep(`{"bool":{"must_not":`, n)+`{"term":{"a":1}}`+rep(`}}`, n)+`}`,
			`{"query":{"bool":{"filter":`+rep("[", n)+rep("]", n)+`}}}`,
			`{"aggs":`+rep(`{"a":{"terms":{"field":"a"},"aggs":`, n)+`{}`+rep(`}}`, n)+`}`,
			`{"query":{"query_string":{"query":"`+rep("(", n)+"a:b"+rep(")", n)+`"}}}`,
		)
	}
	add("sql",
		"select a from t limit "+rep("9", 40), "select a from t where a = "+rep("9", 4000), "select a from t where a = 'unterminated", "select `a from t", "select a from t where a = \"x",
		"select \x00 from t", "select a from t\x00", "select "+rep("a, ", 2500)+"b from t", "select a from t where "+rep("a=1 or ", 1000)+"b=2", "select a from t order by "+rep("a,", 3000)+"b",
		rep("select ", 1100), "select a from t where a in ("+rep("1,", 3500)+"2)", "select count(*) from t group by "+rep("a,", 3000)+"b", "select a as "+rep("x", 8000)+" from t",
		"show columns from "+rep("x", 8000), "describe \x00", "select * from `", "select * from ``", "select * from t limit -1", "select * from t limit 1.5", "select 1e999 from t",
		"select a from t where a like '"+rep("%", 8000)+"'", "select /* unterminated from t", "select a from t -- c", rep("(", maxInput), rep("'", maxInput),
		"select count(", "select count() from t", "select max(a, b) from t", "select a + from t", "select a from", "select from t", "select * from t group by", "select * from t order by",
	)
	add("promql",
		"up["+rep("9", 30)+"s]", "up[1y1y1y]", "up offset "+rep("9", 25)+"y", "up @ 1e400", rep("9", 400), "1e999", "-"+rep("9", 400)+"."+rep("9", 400), "topk("+rep("9", 30)+", up)",
		`up{job="unterminated`, `up{job='x`, "up{job=`x", `{`, `up{`, `up[`, `up[5m`, "sum by (", "sum(up) by", "\x00", "up\x00", `up{job="\x00"}`, "\xff", `up{job=~"`+rep("(a*)*", 1500)+`"}`,
		`{__name__=~"`+rep("(", 100)+`"}`, "up "+rep("+ up ", 700), "up{"+rep(`a="b",`, 1300)+`c="d"}`, "sum by ("+rep("a,", 3900)+"b) (up)", rep("up or ", 700)+"up",
		rep("a", maxInput), rep("{", maxInput), rep("[", maxInput), rep("#", maxInput), "up # comment", "quantile_over_time(2, up[5m])", "histogram_quantile(up, up)",
		"label_replace(up, \"\", \"\", \"\", \"(\")", "round(up, 0)", "clamp(up, 1, 0)", "up % 0", "1 / 0", "0 / 0", "-Inf ^ 0.5", "scalar(up) > bool 1", "vector(time())", "time() - "+rep("9", 300),
		"rate(up[5m:1m])", "rate(up)", "rate(1)", "sum(up[5m])", "up[5m] + up[5m]", "absent_over_time(up[0s])", "up[0s]", "up[-5m]", "up offset -5m", "up @ start() @ end()",
		"count_values(\"\", up)", "sum without() (up)", "up and on() group_left up", "up * on(a) group_left("+rep("b,", 3000)+"c) up",
	)
	add("dsl",
		`{"size":`+rep("9", 400)+`}`, `{"size":-1}`, `{"size":1e400}`, `{"size":1.5}`, `{"size":"x"}`, `{"query":{"range":{"a":{"gte":`+rep("9", 400)+`}}}}`,
		`{"query":{"range":{"timestamp":{"gte":"now-`+rep("9", 30)+`d"}}}}`, `{"query":{"range":{"timestamp":{"gte":"now-1x"}}}}`, `{"query":{"range":{"timestamp":{"gte":"now/"}}}}`,
		`{"query":{"match":{"a":"unterminated}}}`, `{"query":`, `{`, `[`, `null`, `[]`, `1`, `"x"`, `{"query":null}`, `{"query":[]}`, `{"query":{}}`, `{"query":{"bool":null}}`,
		`{"query":{"bool":{"must":null}}}`, `{"query":{"bool":{"must":[null]}}}`, `{"query":{"bool":{"must":[[]]}}}`, `{"query":{"bool":{"must":{"match":null}}}}`,
		`{"query":{"match":{"a":null}}}`, `{"query":{"match":{"a":{}}}}`, `{"query":{"match":{"a":{"query":null}}}}`, `{"query":{"match":{"a":[1,2]}}}`, `{"query":{"match":[]}}`,
		`{"query":{"term":{"a":{"value":null}}}}`, `{"query":{"term":{"a":[]}}}`, `{"query":{"terms":{"a":1}}}`, `{"query":{"terms":{"a":[]}}}`, `{"query":{"terms":{"a":[null,{}]}}}`,
		`{"query":{"range":{"a":1}}}`, `{"query":{"range":{"a":{"gte":null}}}}`, `{"query":{"range":{"a":{"gte":{}}}}}`, `{"query":{"range":[]}}`, `{"query":{"range":{}}}`,
		`{"query":{"query_string":{"query":null}}}`, `{"query":{"query_string":{"query":1}}}`, `{"query":{"query_string":1}}`, `{"query":{"query_string":{}}}`,
		`{"query":{"query_string":{"query":"a:"}}}`, `{"query":{"query_string":{"query":":"}}}`, `{"query":{"query_string":{"query":"a:b AND"}}}`, `{"query":{"query_string":{"query":"\""}}}`,
		`{"query":{"query_string":{"query":"a:[1 TO"}}}`, `{"query":{"query_string":{"query":"a:>"}}}`, `{"query":{"query_string":{"query":"`+rep("a:b AND ", 900)+`c:d"}}}`,
		`{"query":{"exists":{"field":null}}}`, `{"query":{"exists":1}}`, `{"query":{"exists":{}}}`, `{"query":{"prefix":{"a":null}}}`, `{"query":{"regexp":{"a":{"value":1}}}}`,
		`{"query":{"wildcard":{"a":[]}}}`, `{"query":{"multi_match":{"query":1,"fields":"a"}}}`, `{"query":{"multi_match":{"fields":[1,null]}}}`, `{"query":{"multi_match":null}}`,
		`{"query":{"nested":{"path":1,"query":null}}}`, `{"query":{"nested":null}}`, `{"query":{"match_phrase":{"a":{"query":[]}}}}`, `{"query":{"match_phrase":null}}`,
		`{"query":{"match_all":1}}`, `{"query":{"match_all":{"boost":"x"}}}`, `{"sort":[null]}`, `{"sort":[1]}`, `{"sort":[{"a":1}]}`, `{"sort":[{"a":{"order":null}}]}`, `{"sort":[[]]}`, `{"sort":{}}`,
		`{"aggs":null}`, `{"aggs":{"a":null}}`, `{"aggs":{"a":{"terms":null}}}`, `{"aggs":{"a":{"terms":{"field":1}}}}`, `{"aggs":{"a":{"date_histogram":{"field":"timestamp","interval":1}}}}`,
		`{"aggs":{"a":{"date_histogram":{"field":"timestamp","interval":"0s"}}}}`, `{"aggs":{"a":{"date_histogram":{"field":"timestamp","interval":""}}}}`,
		`{"aggs":{"a":{"date_histogram":{"interval":"1m","extended_bounds":{"min":"x","max":null}}}}}`, `{"aggs":{"a":{"date_histogram":{"interval":"`+rep("9", 30)+`h"}}}}`,
		`{"aggs":{"a":{"avg":null}}}`, `{"aggs":{"a":{"avg":{"field":null}}}}`, `{"aggs":{"a":{"aggs":{"b":{"avg":{"field":"x"}}}}}}`, `{"aggs":{"a":{"terms":{"field":"a"},"aggs":null}}}`,
		`{"scroll":"1m"}`, `{"scroll":1}`, `{"scroll_id":"x"}`, `{"scroll":"`+rep("9", 30)+`m"}`, `{"scroll":"1x"}`, `{"scroll":""}`, `{"rest_total_hits_as_int":"x"}`, `{"x":1}`, `{"query":1,"query":{"match_all":{}}}`,
		"{\"query\":{\"match\":{\"a\":\"\x00\"}}}", "\x00", "{\"\x00\":1}", `{"query":{"match":{"":""}}}`, `{"":{}}`, `{"query":{"":{}}}`, `{"query":{"match":{"a":"`+rep("x", 8000)+`"}}}`,
		`{"query":{"bool":{"must":[`+rep(`{"term":{"a":1}},`, 400)+`{"term":{"a":2}}]}}}`, `{"query":{"terms":{"a":[`+rep("1,", 3500)+`2]}}}`, rep("[", maxInput), rep("{", maxInput), rep(`{"a":`, 1600),
	)
	return out
}

// ---- queries taken from the repository's own tests -------------------------------------------

var (
	seedOnce sync.Once
	seedPool map[string][]string
)

func repoRoot() string {
	if r := os.Getenv("VERIF_REPO"); r != "" {
		return r
	}
	return "/repo"
}

var (
	reBacktick = regexp.MustCompile("(?s)\\[\\]byte\\(`([^`]*)`\\)")
	reQuoted   = regexp.MustCompile(`(?m)(?:query|query_string|queryStr|searchText)\s*:?=\s*("(?:\\.|[^"\\])*")`)
	reQuotedBT = regexp.MustCompile("(?m)(?:query|query_string|queryStr|searchText)\\s*:?=\\s*`([^`]*)`")
)

func harvest(dir string, pats ...string) []string {
	seen := map[string]bool{}
	var out []string
	for _, pat := range pats {
		files, _ := filepath.Glob(filepath.Join(repoRoot(), dir, pat))
		sort.Strings(files)
		for _, f := range files {
			b, err := os.ReadFile(f)
			if err != nil {
				continue
			}
			for _, m := range reBacktick.FindAllSubmatch(b, -1) {
				s := string(m[1])
				if !seen[s] && len(s) <= maxInput {
					seen[s] = true
					out = append(out, s)
				}
			}
			for _, m := range reQuotedBT.FindAllSubmatch(b, -1) {
				s := string(m[1])
				if !seen[s] && len(s) <= maxInput {
					seen[s] = true
					out = append(out, s)
				}
			}
			for _, m := range reQuoted.FindAllSubmatch(b, -1) {
				s, err := strconv.Unquote(string(m[1]))
				if err == nil && !seen[s] && len(s) <= maxInput {
					seen[s] = true
					out = append(out, s)
				}
			}
		}
	}
	return out
}

// seeds returns the queries found in the repository's own test files, per language. The pool is
// only an input to generation: a case stores its final bytes, so replay does not depend on it.
func seeds() map[string][]string {
	seedOnce.Do(func() {
		seedPool = map[string][]string{
			"spl":    harvest("pkg/ast/spl/tests", "*_test.go"),
			"pipeql": harvest("pkg/ast/pipesearch", "searchQuery_test.go", "searchQueryParser_test.go"),
			"sql":    harvest("pkg/ast/sql", "*_test.go"),
			"dsl":    harvest("pkg/es/query", "*_test.go"),
			"promql": harvest("pkg/integrations/prometheus/promql", "*_test.go"),
		}
		for k, fallback := range map[string][]string{
			"spl":    {`search A=1 | stats count BY b`, `city=Boston | eval x=if(a>1, "y", "n")`},
			"pipeql": {`a=1 | min(b) groupby c`, `*`},
			"sql":    {"select a from `t` where b = 1 order by a limit 5"},
			"dsl":    {`{"query":{"bool":{"must":[{"match":{"a":"b"}}]}}}`},
			"promql": {`sum(rate(http_requests_total[5m])) by (job)`},
		} {
			if len(seedPool[k]) == 0 {
				seedPool[k] = fallback
			}
		}
	})
	return seedPool
}
