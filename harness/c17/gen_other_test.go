package c17

import (
	"encoding/json"
	"fmt"
	"strings"

	"pgregory.net/rapid"
)

// ---- SQL ------------------------------------------------------------------------------------

func genSQL(t *rapid.T, fp *fieldPool) string {
	f := func() string {
		n := rapid.SampledFrom(fp.Fields).Draw(t, "sqlField")
		if strings.ContainsAny(n, ".-") || chance(t, "btField", 10) {
			return "`" + n + "`"
		}
		return n
	}
	tbl := func() string {
		return pick(t, "tbl", "`c17idx`", "c17idx", "`*`", "`ind-0`", "ind-0", "a.b", "`nosuch`", "t1, t2", "(select a from b)")
	}
	val := func() string {
		return pick(t, "sqlVal", "1", "0", "-5", "2.5", "'alpha'", "'x y'", "''", "\"beta\"", "true", "null", "1e3", "'a%'", "9223372036854775808")
	}
	var cond func(d int) string
	cond = func(d int) string {
		if d <= 0 {
			return f() + pick(t, "sqlCmp", " = ", " != ", " < ", " > ", " <= ", " >= ", " <> ", " like ", " in (1,2) and 1 = ", " is ") + val()
		}
		switch rapid.IntRange(0, 5).Draw(t, "sqlCondKind") {
		case 0:
			return cond(d-1) + " AND " + cond(d-1)
		case 1:
			return cond(d-1) + " OR " + cond(d-1)
		case 2:
			return "(" + cond(d-1) + ")"
		case 3:
			return "NOT " + cond(d-1)
		case 4:
			return f() + " BETWEEN " + val() + " AND " + val()
		default:
			return cond(0)
		}
	}
	selExpr := func() string {
		switch rapid.IntRange(0, 9).Draw(t, "selKind") {
		case 0:
			return "*"
		case 1, 2:
			return pick(t, "sqlAgg", "COUNT", "count", "SUM", "AVG", "MIN", "MAX", "max", "cardinality", "COUNT(DISTINCT") + "(" + pick(t, "sqlAggArg", f(), "*", "1") + ")" +
				pick(t, "sqlAggClose", "", "", ")")
		case 3:
			return f() + " AS " + pick(t, "sqlAlias", "bt", "`ct`", "x", "'q'")
		case 4:
			return pick(t, "sqlMath", "abs", "round", "ceil", "floor", "sqrt", "upper", "lower", "nosuchfn") + "(" + f() + pick(t, "sqlMathArg", "", ", 2", " + 1") + ")"
		case 5:
			return f() + pick(t, "sqlArith", " + ", " - ", " * ", " / ") + pick(t, "sqlArithRhs", "1", f(), "2.5")
		default:
			return f()
		}
	}
	switch rapid.IntRange(0, 11).Draw(t, "sqlStmt") {
	case 0:
		return pick(t, "sqlOther", "show tables", "SHOW TABLES", "show columns from c17idx", "show columns in `c17idx`", "describe c17idx", "DESCRIBE `*`",
			"show databases", "show columns", "describe", "show columns from", "explain select 1", "use x", "insert into a values (1)", "delete from a",
			"update a set b=1", "create table a (b int)", "select 1; select 2", "select 1 union select 2", "set x = 1", "begin", "")
	default:
		n := rapid.IntRange(1, 4).Draw(t, "nSel")
		parts := make([]string, n)
		for i := range parts {
			parts[i] = selExpr()
		}
		s := pick(t, "selKw", "select ", "SELECT ", "select distinct ") + strings.Join(parts, ", ") + pick(t, "fromKw", " from ", " FROM ") + tbl()
		if chance(t, "sqlWhere", 50) {
			s += " where " + cond(rapid.IntRange(0, 3).Draw(t, "sqlCondDepth"))
		}
		if chance(t, "sqlGroup", 35) {
			s += " group by " + f() + pick(t, "sqlGroup2", "", ", "+f())
		}
		if chance(t, "sqlHaving", 8) {
			s += " having count(*) > 1"
		}
		if chance(t, "sqlOrder", 35) {
			s += " order by " + f() + pick(t, "sqlDir", "", " asc", " desc", " DESC, "+f())
		}
		if chance(t, "sqlLimit", 35) {
			s += " limit " + pick(t, "sqlLim", "1", "10", "0", "100000000000", "-1", "5 offset 2", "2, 3")
		}
		return s
	}
}

// ---- PromQL ---------------------------------------------------------------------------------

func genPromQL(t *rapid.T) string {
	metric := func() string {
		return pick(t, "metric", "http_requests_total", "up", "node_cpu_seconds_total", "m", "testmetric0", "a:b:c", "__name__", "go_gc_duration_seconds")
	}
	matchers := func() string {
		if chance(t, "noMatchers", 40) {
			return ""
		}
		n := rapid.IntRange(0, 3).Draw(t, "nMatch")
		parts := make([]string, n)
		for i := range parts {
			parts[i] = pick(t, "lbl", "job", "instance", "le", "__name__", "code", "a_b") + pick(t, "mop", "=", "!=", "=~", "!~") +
				pick(t, "lval", `"api"`, `"a.*"`, `""`, `"("`, `".+"`, `"5.."`, `'x'`, "`y`", `"a|b"`, `"\\d+"`)
		}
		return "{" + strings.Join(parts, ",") + "}"
	}
	dur := func() string { return pick(t, "dur", "5m", "1h", "30s", "1d", "1w", "1y", "1ms", "0s", "1h30m", "5") }
	var expr func(d int) string
	selector := func() string {
		s := metric() + matchers()
		if chance(t, "bareMatchers", 8) {
			s = `{__name__=~"` + pick(t, "nameRe", "http.*", "(", ".*", "a|b") + `"}`
		}
		if chance(t, "offset", 12) {
			s += " offset " + pick(t, "offDur", "5m", "-1h", "0s")
		}
		if chance(t, "at", 6) {
			s += " @ " + pick(t, "atv", "1700000000", "start()", "end()", "1.5")
		}
		return s
	}
	rangeSel := func(d int) string {
		if d > 0 && chance(t, "subq", 25) {
			return expr(d-1) + "[" + dur() + ":" + pick(t, "step", "", "1m", "5s") + "]"
		}
		return metric() + matchers() + "[" + dur() + "]"
	}
	expr = func(d int) string {
		if d <= 0 {
			if chance(t, "numLeaf", 20) {
				return pick(t, "pnum", "1", "0", "2.5", "-3", "1e3", "Inf", "NaN", "0x1f", "1/2")
			}
			return selector()
		}
		switch rapid.IntRange(0, 11).Draw(t, "pKind") {
		case 0, 1:
			return pick(t, "rfn", "rate", "irate", "increase", "delta", "idelta", "deriv", "changes", "resets", "avg_over_time", "sum_over_time", "min_over_time",
				"max_over_time", "count_over_time", "stddev_over_time", "stdvar_over_time", "last_over_time", "present_over_time", "absent_over_time") +
				"(" + rangeSel(d) + ")"
		case 2:
			return pick(t, "qfn", "quantile_over_time(0.9, ", "predict_linear(", "holt_winters(") + rangeSel(d) + pick(t, "qfnTail", ")", ", 3600)", ", 0.5, 0.5)")
		case 3, 4:
			agg := pick(t, "pagg", "sum", "avg", "min", "max", "count", "stddev", "stdvar", "group", "topk", "bottomk", "quantile", "count_values")
			by := pick(t, "pby", "", " by (job)", " without (instance)", " by (job, code)", " by ()")
			arg := expr(d - 1)
			switch agg {
			case "topk", "bottomk":
				arg = pick(t, "k", "3", "0", "-1", "1e10") + ", " + arg
			case "quantile":
				arg = pick(t, "q", "0.5", "2", "-1") + ", " + arg
			case "count_values":
				arg = `"v", ` + arg
			}
			if chance(t, "byFirst", 40) {
				return agg + by + " (" + arg + ")"
			}
			return agg + "(" + arg + ")" + by
		case 5, 6:
			op := pick(t, "pop", " + ", " - ", " * ", " / ", " % ", " ^ ", " == ", " != ", " > ", " < ", " >= ", " <= ", " > bool ", " and ", " or ", " unless ")
			mod := ""
			if chance(t, "vmatch", 20) {
				mod = pick(t, "vm", "on(job) ", "ignoring(instance) ", "on(job) group_left ", "ignoring(code) group_right(x) ", "on() ")
			}
			return expr(d-1) + op + mod + expr(d-1)
		case 7:
			return pick(t, "mfn", "abs", "ceil", "floor", "exp", "ln", "log2", "log10", "sqrt", "round", "sgn", "deg", "rad", "sin", "acos", "timestamp", "scalar",
				"vector", "absent", "sort", "sort_desc", "hour", "minute", "month", "year", "day_of_week", "day_of_month", "days_in_month", "day_of_year") +
				"(" + expr(d-1) + ")"
		case 8:
			return pick(t, "cfn", "clamp_max", "clamp_min", "round", "clamp") + "(" + expr(d-1) + ", " + pick(t, "carg", "100", "1/2", "0, 1", "-1") + ")"
		case 9:
			return pick(t, "lfn", `label_replace(`+expr(d-1)+`, "dst", "$1", "src", "(.*)")`, `label_join(`+expr(d-1)+`, "dst", "-", "a", "b")`,
				`histogram_quantile(0.9, `+expr(d-1)+`)`, "time()", "pi()", "hour()", `label_replace(`+expr(d-1)+`, "dst", "$1", "src", "(")`)
		case 10:
			return "(" + expr(d-1) + ")"
		default:
			return "-" + expr(d-1)
		}
	}
	return expr(rapid.IntRange(0, 4).Draw(t, "pDepth"))
}

// ---- Elasticsearch query DSL ----------------------------------------------------------------

// genDSL builds a request body as a JSON tree following the documented DSL shapes and then,
// with some probability, replaces subtrees by values of another JSON kind (the parser walks the
// tree with type switches and assertions; ill-typed but well-formed JSON is the interesting part).
func genDSL(t *rapid.T, fp *fieldPool) []byte {
	field := func() string { return rapid.SampledFrom(fp.Fields).Draw(t, "dslField") }
	scalar := func() interface{} {
		switch rapid.IntRange(0, 7).Draw(t, "scalarKind") {
		case 0:
			return rapid.SampledFrom([]interface{}{1, 0, -1, 2.5, 1e300, json.Number("9223372036854775808"), json.Number("1e400")}).Draw(t, "num")
		case 1:
			return rapid.Bool().Draw(t, "b")
		case 2:
			return nil
		default:
			return pick(t, "sval", "alpha", "x y", "", "*", "a*", "now-1h", "now", "2024-01-01", "1700000000000", "a AND b", "f:v", "(", "\"q\"", "1", "AND", "a:b:c", "col:>5")
		}
	}
	var perturb func(v interface{}, d int) interface{}
	perturb = func(v interface{}, d int) interface{} {
		if chance(t, "perturb", 6) {
			switch rapid.IntRange(0, 6).Draw(t, "pertKind") {
			case 0:
				return scalar()
			case 1:
				return []interface{}{v}
			case 2:
				return map[string]interface{}{}
			case 3:
				return []interface{}{}
			case 4:
				return map[string]interface{}{pick(t, "pk", "query", "value", "bool", "x", "boost", "match_all", ""): v}
			case 5:
				return []interface{}{scalar(), scalar()}
			default:
				return nil
			}
		}
		switch x := v.(type) {
		case map[string]interface{}:
			out := make(map[string]interface{}, len(x))
			// iterate keys in sorted order so that the draw sequence is deterministic
			keys := make([]string, 0, len(x))
			for k := range x {
				keys = append(keys, k)
			}
			sortStrings(keys)
			for _, k := range keys {
				out[k] = perturb(x[k], d+1)
			}
			return out
		case []interface{}:
			out := make([]interface{}, len(x))
			for i := range x {
				out[i] = perturb(x[i], d+1)
			}
			return out
		}
		return v
	}
	var q func(d int) map[string]interface{}
	leaf := func() map[string]interface{} {
		switch rapid.IntRange(0, 15).Draw(t, "leafKind") {
		case 0:
			return map[string]interface{}{"match_all": map[string]interface{}{}}
		case 1:
			return map[string]interface{}{"match": map[string]interface{}{field(): scalar()}}
		case 2:
			return map[string]interface{}{"match": map[string]interface{}{field(): map[string]interface{}{"query": scalar(), "operator": pick(t, "mop", "and", "or", "AND", "x")}}}
		case 3:
			return map[string]interface{}{"match_phrase": map[string]interface{}{field(): scalar()}}
		case 4:
			return map[string]interface{}{"term": map[string]interface{}{field(): scalar()}}
		case 5:
			return map[string]interface{}{"term": map[string]interface{}{field(): map[string]interface{}{"value": scalar()}}}
		case 6:
			return map[string]interface{}{"terms": map[string]interface{}{field(): []interface{}{scalar(), scalar()}}}
		case 7:
			r := map[string]interface{}{}
			for _, k := range []string{"gte", "lte", "gt", "lt", "format", "time_zone", "from", "to", "include_lower"} {
				if chance(t, "rk", 30) {
					r[k] = scalar()
				}
			}
			return map[string]interface{}{"range": map[string]interface{}{pick(t, "rfield", field(), "timestamp", "@timestamp", "startTimeMillis"): r}}
		case 8:
			qs := map[string]interface{}{"query": scalar()}
			if chance(t, "qsExtra", 50) {
				qs[pick(t, "qsk", "default_field", "analyze_wildcard", "fields", "default_operator", "x")] = perturb(scalar(), 0)
			}
			return map[string]interface{}{"query_string": qs}
		case 9:
			return map[string]interface{}{"exists": map[string]interface{}{"field": scalar()}}
		case 10:
			return map[string]interface{}{pick(t, "pfx", "prefix", "regexp", "wildcard"): map[string]interface{}{field(): pick(t, "pfxForm", "a", "a.*", "(", "*")}}
		case 11:
			return map[string]interface{}{pick(t, "pfx2", "prefix", "regexp", "wildcard"): map[string]interface{}{field(): map[string]interface{}{"value": scalar()}}}
		case 12:
			return map[string]interface{}{"multi_match": map[string]interface{}{"query": scalar(), "fields": []interface{}{field(), field()},
				"type": pick(t, "mmType", "phrase", "best_fields", "x"), "operator": pick(t, "mmOp", "and", "or")}}
		case 13:
			return map[string]interface{}{"nested": map[string]interface{}{"path": "obj", "query": map[string]interface{}{"match": map[string]interface{}{"obj.id": scalar()}}}}
		case 14:
			return map[string]interface{}{"match_phrase": map[string]interface{}{field(): map[string]interface{}{"query": scalar()}}}
		default:
			return map[string]interface{}{pick(t, "unkLeaf", "fuzzy", "ids", "match_none", "script", "", "bool"): scalar()}
		}
	}
	q = func(d int) map[string]interface{} {
		if d <= 0 || chance(t, "isLeaf", 40) {
			return leaf()
		}
		b := map[string]interface{}{}
		for _, k := range []string{"must", "filter", "should", "must_not"} {
			if !chance(t, "boolKey", 40) {
				continue
			}
			switch rapid.IntRange(0, 2).Draw(t, "boolShape") {
			case 0:
				b[k] = q(d - 1)
			default:
				n := rapid.IntRange(0, 3).Draw(t, "nBool")
				arr := make([]interface{}, n)
				for i := range arr {
					arr[i] = q(d - 1)
				}
				b[k] = arr
			}
		}
		if chance(t, "msm", 10) {
			b["minimum_should_match"] = scalar()
		}
		return map[string]interface{}{"bool": b}
	}
	aggsNode := func() map[string]interface{} {
		a := map[string]interface{}{}
		n := rapid.IntRange(1, 2).Draw(t, "nAggs")
		for i := 0; i < n; i++ {
			name := pick(t, "aggName", "a1", "by_x", "2", "")
			switch rapid.IntRange(0, 5).Draw(t, "aggKind") {
			case 0:
				a[name] = map[string]interface{}{pick(t, "stat", "avg", "sum", "min", "max", "cardinality", "value_count", "x"): map[string]interface{}{"field": field()}}
			case 1:
				a[name] = map[string]interface{}{"terms": map[string]interface{}{"field": field(), "size": scalar()}}
			case 2:
				dh := map[string]interface{}{"field": "timestamp"}
				dh[pick(t, "ivKey", "interval", "fixed_interval", "calendar_interval", "x")] = pick(t, "iv", "1m", "1h", "1d", "30s", "1w", "1M", "1y", "0s", "x", "10")
				if chance(t, "bounds", 30) {
					dh["extended_bounds"] = map[string]interface{}{"min": scalar(), "max": scalar()}
				}
				a[name] = map[string]interface{}{"date_histogram": dh}
			case 3:
				a[name] = map[string]interface{}{"terms": map[string]interface{}{"field": field()},
					pick(t, "subAggKey", "aggs", "aggregations"): map[string]interface{}{"s": map[string]interface{}{"max": map[string]interface{}{"field": field()}}}}
			case 4:
				a[name] = map[string]interface{}{"histogram": map[string]interface{}{"field": field(), "interval": scalar()}}
			default:
				a[name] = scalar()
			}
		}
		return a
	}
	root := map[string]interface{}{}
	if chance(t, "hasQuery", 85) {
		root["query"] = q(rapid.IntRange(0, 3).Draw(t, "qDepth"))
	}
	if chance(t, "hasSize", 40) {
		root["size"] = rapid.SampledFrom([]interface{}{0, 1, 10, 10000, -1, 2.5, json.Number("18446744073709551616"), "5"}).Draw(t, "size")
	}
	if chance(t, "hasSort", 25) {
		root["sort"] = rapid.SampledFrom([]interface{}{
			[]interface{}{map[string]interface{}{"timestamp": map[string]interface{}{"order": "desc"}}},
			[]interface{}{map[string]interface{}{"a": "asc"}},
			[]interface{}{"a"},
			[]interface{}{},
			[]interface{}{map[string]interface{}{"a": map[string]interface{}{"order": 1}}, map[string]interface{}{"b": nil}},
			[]interface{}{map[string]interface{}{}},
		}).Draw(t, "sort")
	}
	if chance(t, "hasAggs", 35) {
		root[pick(t, "aggsKey", "aggs", "aggregations")] = aggsNode()
	}
	if chance(t, "hasTotalHits", 25) {
		root["rest_total_hits_as_int"] = rapid.Bool().Draw(t, "rth")
	}
	if chance(t, "hasOther", 25) {
		root[pick(t, "otherKey", "_source", "timeout", "version", "stored_fields", "highlight", "from", "track_total_hits", "scroll", "scroll_id", "x")] = perturb(scalar(), 0)
	}
	out := perturb(root, 0)
	b, err := json.Marshal(out)
	if err != nil {
		return []byte(fmt.Sprintf(`{"query":{"match_all":{}},"marshal_error":%q}`, err.Error()))
	}
	return b
}

func sortStrings(s []string) {
	for i := 1; i < len(s); i++ {
		for j := i; j > 0 && s[j] < s[j-1]; j-- {
			s[j], s[j-1] = s[j-1], s[j]
		}
	}
}
