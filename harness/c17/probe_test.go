package c17

import (
	"fmt"
	"os"
	"strings"
	"testing"
	"time"

	"verifharness/gen"
	"verifharness/model"
	"verifharness/pt"
	"verifharness/sut"
)

func probeEvents(n int) []*model.Event {
	var evs []*model.Event
	for i := 0; i < n; i++ {
		doc := model.Node{IsObj: true, Obj: []model.Field{
			{Name: "a", Node: model.LeafNode(model.Int(int64(i % 5)))},
			{Name: "b", Node: model.LeafNode(model.Str([]string{"alpha", "beta", "x y"}[i%3]))},
			{Name: "_vid", Node: model.LeafNode(model.Int(int64(i + 1)))},
		}}
		evs = append(evs, &model.Event{Vid: int64(i + 1), Ts: gen.BaseTs + uint64(i), Doc: doc})
	}
	return evs
}

func TestProbeExec(t *testing.T) {
	qs := strings.Split(os.Getenv("C17_Q"), "\n")
	evs := probeEvents(20)
	for _, q := range qs {
		if strings.TrimSpace(q) == "" {
			continue
		}
		_ = pt.WithWorker(sut.Options{Timeout: 400 * time.Second}, func(c *sut.Client) error {
			_, _ = c.Bulk(0, gen.BulkBody(execIndex, evs))
			_ = c.Flush()
			t0 := time.Now()
			sr, err := c.Search(sut.Query{Index: execIndex, Text: q, Start: gen.BaseTs - 1, End: gen.BaseTs + 100, Size: 100})
			if err != nil {
				d := pt.CrashDetail(c)
				if i := strings.Index(d, "panic:"); i >= 0 {
					d = d[i:]
				} else if i := strings.Index(d, "fatal error:"); i >= 0 {
					d = d[i:]
				}
				if len(d) > 1800 {
					d = d[:1800]
				}
				fmt.Printf("QUERY %q -> %v\n%s\n----\n", q, err, d)
				return nil
			}
			fmt.Printf("QUERY %q -> err=%q n=%d measure=%d took=%v\n----\n", q, sr.Err, len(sr.Records), len(sr.Measure), time.Since(t0))
			return nil
		})
	}
}
