package c17

import (
	"encoding/json"
	"fmt"
	"os"
	"path/filepath"
	"testing"

	"verifharness/gen"
	"verifharness/model"
)

// TestC17WriteCorpus (only with C17_WRITE_CORPUS=<dir>) writes the regression envelopes kept in
// /verif/corpus/C17: the minimal inputs of the defects found while building this check.
func TestC17WriteCorpus(t *testing.T) {
	dir := os.Getenv("C17_WRITE_CORPUS")
	if dir == "" {
		t.Skip("set C17_WRITE_CORPUS=<dir> to (re)generate the corpus files")
	}
	_ = os.MkdirAll(dir, 0o755)
	write := func(name, test, msg string, c interface{}) {
		cj, _ := json.Marshal(c)
		env := map[string]interface{}{"property": "C17", "test": test, "msg": msg, "case": json.RawMessage(cj)}
		eb, _ := json.MarshalIndent(env, "", " ")
		if err := os.WriteFile(filepath.Join(dir, name+".json"), eb, 0o644); err != nil {
			t.Fatal(err)
		}
	}
	for _, p := range []struct{ name, lang, text, msg string }{
		{"parse-spl-nested-parens-exponential", "spl", "a=1 | eval x=if((((((((((((a=1,1,2))))))))))))", "exponential PEG backtracking: >30 s CPU for 46 bytes"},
		{"parse-pipeql-nested-parens-exponential", "pipeql", "((((((((((((a=1))))))))))))", "exponential PEG backtracking: >30 s CPU for 27 bytes"},
		{"parse-dsl-empty-sort", "dsl", `{"sort":[]}`, "parseSort: index out of range [0] with length 0"},
		{"parse-dsl-terms-numbers", "dsl", `{"query":{"bool":{"filter":[{"terms":{"a":[1,2]}}]}}}`, "createTermsFilterCriteria: interface {} is json.Number, not string"},
		{"parse-dsl-multimatch-number", "dsl", `{"query":{"bool":{"must":{"multi_match":{"query":1,"type":"phrase"}}}}}`, "parseMultiMatch_nested: interface {} is json.Number, not string"},
		{"parse-dsl-empty-match-phrase", "dsl", `{"query":{"match_phrase":{}}}`, "createMatchPhraseFilterCriteria: interface {} is nil, not string"},
		{"parse-dsl-empty-query-string", "dsl", `{"query":{"bool":{"must":[{"query_string":{"query":""}}]}}}`, "convertAndParseQuerystring: nil pointer dereference"},
		{"parse-dsl-sibling-aggs-order", "dsl", `{"aggs":{"2":{"aggs":{"agg1":{"terms":{"field":"vpcName"}},"3":{"avg":{"field":"a"}}},"terms":{"field":"vpcID"}}}}`,
			"group-by column order depends on Go map iteration order"},
		{"parse-dsl-nested-path-order", "dsl", `{"query":{"bool":{"must":[{"nested":{"path":"tags","query":{"bool":{"must":[{"match":{"tags.key":{"query":"k"}}},{"regexp":{"tags.value":{"value":"v"}}}]}}}}]}}}`,
			"nested query: column and key are empty when the member \"query\" is visited before \"path\" (map order)"},
	} {
		write(p.name, "TestC17Parse", p.msg, newParseCase(p.lang, "corpus", []byte(p.text)))
	}
	// a tiny fixed dataset for the execution cases
	var evs []*model.Event
	for i := 0; i < 6; i++ {
		doc := model.Node{IsObj: true, Obj: []model.Field{
			{Name: "a", Node: model.LeafNode(model.Int(int64(i % 3)))},
			{Name: "b", Node: model.LeafNode(model.Str([]string{"alpha", "beta"}[i%2]))},
			{Name: "_vid", Node: model.LeafNode(model.Int(int64(i + 1)))},
		}}
		evs = append(evs, &model.Event{Vid: int64(i + 1), Ts: gen.BaseTs + uint64(i), Doc: doc})
	}
	ds := &gen.Dataset{Columns: []gen.Column{{Path: []string{"a"}, Profile: gen.PInt}, {Path: []string{"b"}, Profile: gen.PLowStr}}, Events: evs}
	for i, q := range []struct{ name, text, msg string }{
		{"exec-sort-limit-zero", "* | sort 0 a", "sortProcessor.less: nil pointer dereference in a query goroutine, server exits"},
		{"exec-top-zero-useother", "* | top 0 a by b useother=true", "statisticExprProcessor: index out of range, server exits"},
		{"exec-transaction", "* | transaction a", "transactionProcessor.Process: panic(\"not implemented\"), server exits"},
		{"exec-gentimes-stats-latest", "| gentimes start=-3 increment=1h | stats latest(timestamp) by app", "statsProcessor.processGroupByRequest: nil pointer dereference, server exits"},
		{"exec-estdc-eval-groupby", `* | stats estdc(eval(relative_time(1700000000, "@w"))) as total by a`, "updateEValFromRunningBuckets: index out of range while rqsLock is held"},
	} {
		_ = i
		write(q.name, "TestC17Exec", q.msg, &execCase{DS: ds, Queries: []execQuery{{"spl", q.text}, {"spl", "* | stats count"}}})
	}
	// websocket queries leave a goroutine blocked in listenToConnection behind
	write("life-websocket-listener-leak", "TestC17Lifecycle", "one goroutine per websocket query stays blocked in listenToConnection",
		&lifeCase{DS: ds, MaxProcs: 2, Queries: []string{"* | stats count"}, Actions: []scriptAction{{Kind: "wsburst", Query: 0, N: 25, CancelAfterMs: -1}}})
	// cancelled queries keep their timeout goroutine until the timeout expires: four rounds of four
	// running websocket queries, each cancelled by its client after 300 ms
	slow := "| gentimes start=-12 increment=1s | stats count"
	write("life-cancelled-query-timeout-goroutine", "TestC17Lifecycle", "timeout goroutines of cancelled queries stay until the query timeout expires",
		&lifeCase{DS: ds, MaxProcs: 4, Queries: []string{"* | stats count", slow}, Actions: []scriptAction{
			{Kind: "wsburst", Query: 1, N: 4, CancelAfterMs: 300}, {Kind: "wsburst", Query: 1, N: 4, CancelAfterMs: 300, DelayMs: 700},
			{Kind: "wsburst", Query: 1, N: 4, CancelAfterMs: 300, DelayMs: 700}, {Kind: "wsburst", Query: 1, N: 4, CancelAfterMs: 300, DelayMs: 700}}})
	fmt.Println("corpus written to", dir)
}
