package c08

import (
	"encoding/json"
	"math"
	"strconv"
	"strings"

	"github.com/gogo/protobuf/proto"
	"github.com/golang/snappy"
	"github.com/prometheus/prometheus/prompb"
)

// Pt is one datapoint of a case: second-resolution timestamp and the float64 bit pattern.
type Pt struct {
	T    uint32 `json:"t"`
	Bits uint64 `json:"b"`
}

func (p Pt) V() float64 { return math.Float64frombits(p.Bits) }

// Tag is one (key, value) pair.
type Tag struct {
	K string `json:"k"`
	V string `json:"v"`
}

// Series is a metric name, a tag set (distinct keys) and its datapoints in send order.
type Series struct {
	Name string `json:"name"`
	Tags []Tag  `json:"tags"`
	Pts  []Pt   `json:"pts"`
}

// Sample addresses one datapoint of a case: series index and point index.
type Sample struct {
	S int `json:"s"`
	P int `json:"p"`
}

func jsonStr(s string) string {
	b, _ := json.Marshal(s)
	return string(b)
}

// floatText renders v so that strconv.ParseFloat returns exactly v (shortest round-trip form).
// style 0: %g-like shortest; style 1: plain decimal without exponent when short enough.
func floatText(v float64, style int) string {
	if style == 1 {
		s := strconv.FormatFloat(v, 'f', -1, 64)
		if len(s) <= 40 {
			return s
		}
	}
	return strconv.FormatFloat(v, 'g', -1, 64)
}

// otsdbBody renders the samples as an OpenTSDB /api/put array. msTs: send the timestamp in
// milliseconds (the API divides by 1000). style: number rendering.
func otsdbBody(ser []Series, samples []Sample, msTs bool, style int) []byte {
	var sb strings.Builder
	sb.WriteByte('[')
	for i, sm := range samples {
		s := ser[sm.S]
		p := s.Pts[sm.P]
		if i > 0 {
			sb.WriteByte(',')
		}
		sb.WriteString(`{"metric":`)
		sb.WriteString(jsonStr(s.Name))
		sb.WriteString(`,"tags":{`)
		for j, tg := range s.Tags {
			if j > 0 {
				sb.WriteByte(',')
			}
			sb.WriteString(jsonStr(tg.K))
			sb.WriteByte(':')
			sb.WriteString(jsonStr(tg.V))
		}
		sb.WriteString(`},"timestamp":`)
		if msTs {
			sb.WriteString(strconv.FormatUint(uint64(p.T)*1000, 10))
		} else {
			sb.WriteString(strconv.FormatUint(uint64(p.T), 10))
		}
		sb.WriteString(`,"value":`)
		sb.WriteString(floatText(p.V(), style))
		sb.WriteByte('}')
	}
	sb.WriteByte(']')
	return []byte(sb.String())
}

// promBody renders the samples as a snappy-compressed Prometheus remote-write request
// (timestamps in milliseconds as the protocol says). Consecutive samples of the same series
// share one TimeSeries entry.
func promBody(ser []Series, samples []Sample) ([]byte, error) {
	var wr prompb.WriteRequest
	last := -1
	for _, sm := range samples {
		s := ser[sm.S]
		p := s.Pts[sm.P]
		if sm.S != last {
			ts := prompb.TimeSeries{}
			ts.Labels = append(ts.Labels, prompb.Label{Name: "__name__", Value: s.Name})
			for _, tg := range s.Tags {
				ts.Labels = append(ts.Labels, prompb.Label{Name: tg.K, Value: tg.V})
			}
			wr.Timeseries = append(wr.Timeseries, ts)
			last = sm.S
		}
		cur := &wr.Timeseries[len(wr.Timeseries)-1]
		cur.Samples = append(cur.Samples, prompb.Sample{Value: p.V(), Timestamp: int64(p.T) * 1000})
	}
	raw, err := proto.Marshal(&wr)
	if err != nil {
		return nil, err
	}
	return snappy.Encode(nil, raw), nil
}
