package c08

import (
	"encoding/json"
	"fmt"
	"math"
	"reflect"
	"sort"
	"strconv"
	"sync"
	"unsafe"

	otsdbwriter "github.com/siglens/siglens/pkg/integrations/otsdb/writer"
	promwriter "github.com/siglens/siglens/pkg/integrations/prometheus/ingest"
	"github.com/siglens/siglens/pkg/integrations/prometheus/promql"
	rutils "github.com/siglens/siglens/pkg/readerUtils"
	"github.com/siglens/siglens/pkg/segment"
	"github.com/siglens/siglens/pkg/segment/query"
	"github.com/siglens/siglens/pkg/segment/structs"
	sutils "github.com/siglens/siglens/pkg/segment/utils"
	"github.com/siglens/siglens/pkg/segment/writer/metrics"
	"github.com/siglens/siglens/pkg/segment/writer/metrics/meta"

	dtu "github.com/siglens/siglens/pkg/common/dtypeutils"

	"verifharness/sut"
)

// ---- wire types (shared by worker and parent; nothing siglens-specific crosses the pipe) ------

// PutResult is the answer of the ingest entry point.
type PutResult struct {
	Success uint64 `json:"success"`
	Failed  uint64 `json:"failed"`
	Err     string `json:"err,omitempty"`
}

// QPoint is one returned datapoint; the value travels as its IEEE-754 bit pattern.
type QPoint struct {
	T    uint32 `json:"t"`
	Bits uint64 `json:"b"`
}

// QSeries is one entry of MetricsResult.Results (key = internal series id text).
type QSeries struct {
	ID  string   `json:"id"`
	Pts []QPoint `json:"pts"`
}

// PromSeries is one entry of the Prometheus range response built by GetResultsPromQl
// (the observation an API client gets): label map and values rendered as text.
type PromSeries struct {
	Metric map[string]string `json:"metric"`
	Pts    []QPoint          `json:"pts"`           // parsed back from the rendered text
	BadVal []string          `json:"bad,omitempty"` // rendered values that did not parse
}

type QueryResult struct {
	ConvErr string       `json:"convErr,omitempty"`
	ErrList []string     `json:"errList,omitempty"`
	Series  []QSeries    `json:"series,omitempty"`
	Prom    []PromSeries `json:"prom,omitempty"`
	PromErr string       `json:"promErr,omitempty"`
}

// ---- worker operations --------------------------------------------------------------------------

func init() {
	sut.RegisterOp("c08.put", opPut)
	sut.RegisterOp("c08.flush", opFlush)
	sut.RegisterOp("c08.rotate", opRotate)
	sut.RegisterOp("c08.query", opQuery)
	sut.RegisterOp("c08.settle", opSettle)
}

// opSettle does what timeBasedTagsTreeFlush does every 60 s: write the in-memory tags trees to
// their files. A query whose tags-tree directory also serves an already rotated segment reads
// the tags trees from these files, so a series created after a segment rotation becomes
// visible with the next periodic flush (visibility latency; not a C08 matter). The check asks
// its questions "after the timer has fired".
func opSettle(req *sut.Req) (interface{}, error) {
	for _, tth := range metrics.GetAllTagsTreeHolders() {
		if err := tth.EncodeTagsTreeHolder(); err != nil {
			return nil, fmt.Errorf("EncodeTagsTreeHolder: %v", err)
		}
	}
	return nil, nil
}

// opPut feeds one request body to the OTSDB put handler or to the Prometheus remote-write
// handler (the functions the HTTP handlers call with the request body).
func opPut(req *sut.Req) (interface{}, error) {
	var res PutResult
	var err error
	switch req.Name {
	case "otsdb":
		res.Success, res.Failed, err = otsdbwriter.HandlePutMetrics(req.Body, req.Org)
	case "prom":
		res.Success, res.Failed, err = promwriter.HandlePutMetrics(req.Body, req.Org)
	default:
		return nil, fmt.Errorf("unknown protocol %q", req.Name)
	}
	if err != nil {
		res.Err = err.Error()
	}
	return &res, nil
}

// refreshMetricsMeta does what query.refreshMetricsMetadataLoop does every 5 s: re-read the
// metrics meta file so that rotated segments are known to the query side. Without it a
// rotated segment is invisible for up to 5 s (eventual visibility, not a C08 matter).
func refreshMetricsMeta() error {
	return query.PopulateMetricsMetadataForTheFile_TestOnly(meta.GetLocalMetricsMetaFName())
}

// opFlush is the shutdown path (cmd/startup): ForceFlushMetricsBlock.
func opFlush(req *sut.Req) (interface{}, error) {
	metrics.ForceFlushMetricsBlock()
	return nil, refreshMetricsMeta()
}

func segLock(ms *metrics.MetricsSegment) (*sync.RWMutex, error) {
	f := reflect.ValueOf(ms).Elem().FieldByName("rwLock")
	if !f.IsValid() || f.Kind() != reflect.Ptr || f.IsNil() {
		return nil, fmt.Errorf("MetricsSegment.rwLock not found (renamed?)")
	}
	if f.Type() != reflect.TypeOf((*sync.RWMutex)(nil)) {
		return nil, fmt.Errorf("MetricsSegment.rwLock has type %v", f.Type())
	}
	return (*sync.RWMutex)(unsafe.Pointer(f.Pointer())), nil
}

// opRotate performs the size-triggered rotation of timeBasedRotate (lock; CheckAndRotate(false);
// unlock) with the size threshold lowered for the duration of the call, so that a block
// (Name=block) or a whole segment (Name=segment) rotates now instead of after 100 MB / 10 GB.
// The segment lock is held while the threshold is lowered: the background timeBasedRotate
// re-checks the (restored) threshold under the same lock, so it cannot rotate a second time.
func opRotate(req *sut.Req) (interface{}, error) {
	for _, ms := range metrics.GetAllMetricsSegments() {
		l, err := segLock(ms)
		if err != nil {
			return nil, err
		}
		l.Lock()
		oldB, oldS := sutils.MAX_BYTES_METRICS_BLOCK, sutils.MAX_BYTES_METRICS_SEGMENT
		switch req.Name {
		case "block":
			sutils.MAX_BYTES_METRICS_BLOCK = 0
		case "segment":
			sutils.MAX_BYTES_METRICS_SEGMENT = 0
		default:
			l.Unlock()
			return nil, fmt.Errorf("unknown rotation %q", req.Name)
		}
		err = ms.CheckAndRotate(false)
		sutils.MAX_BYTES_METRICS_BLOCK, sutils.MAX_BYTES_METRICS_SEGMENT = oldB, oldS
		l.Unlock()
		if err != nil {
			return nil, fmt.Errorf("CheckAndRotate: %v", err)
		}
	}
	return nil, refreshMetricsMeta()
}

// opQuery evaluates a PromQL text the way ProcessPromqlMetricsRangeSearchRequest does with
// step=1s: ConvertPromQLToMetricsQuery, Downsampler.Interval=step, ExecuteMultipleMetricsQuery,
// GetResultsPromQl.
func opQuery(req *sut.Req) (interface{}, error) {
	out := &QueryResult{}
	start, end := uint32(req.Start), uint32(req.End)
	reqs, pqlType, arith, err := promql.ConvertPromQLToMetricsQuery(req.Text, start, end, req.Org)
	if err != nil {
		out.ConvErr = err.Error()
		return out, nil
	}
	if len(reqs) == 0 {
		out.ConvErr = "no metrics query produced"
		return out, nil
	}
	qid := rutils.GetNextQid()
	list := make([]*structs.MetricsQuery, 0, len(reqs))
	hashes := make([]uint64, 0, len(reqs))
	var tr *dtu.MetricsTimeRange
	for i := range reqs {
		reqs[i].MetricsQuery.Downsampler.Interval = 1
		reqs[i].MetricsQuery.Downsampler.Unit = "s"
		hashes = append(hashes, reqs[i].MetricsQuery.QueryHash)
		list = append(list, &reqs[i].MetricsQuery)
		tr = &reqs[i].TimeRange
	}
	res := segment.ExecuteMultipleMetricsQuery(hashes, list, arith, tr, qid, false)
	if res == nil {
		out.ErrList = []string{"nil result"}
		return out, nil
	}
	for _, e := range res.ErrList {
		out.ErrList = append(out.ErrList, e.Error())
	}
	ids := make([]string, 0, len(res.Results))
	for id := range res.Results {
		ids = append(ids, id)
	}
	sort.Strings(ids)
	for _, id := range ids {
		s := QSeries{ID: id}
		for t, v := range res.Results[id] {
			s.Pts = append(s.Pts, QPoint{T: t, Bits: math.Float64bits(v)})
		}
		sort.Slice(s.Pts, func(i, j int) bool { return s.Pts[i].T < s.Pts[j].T })
		out.Series = append(out.Series, s)
	}
	if len(out.ErrList) == 0 && !res.IsScalar {
		pr, perr := res.GetResultsPromQl(&reqs[0].MetricsQuery, pqlType)
		if perr != nil {
			out.PromErr = perr.Error()
		} else if pr != nil && pr.Data != nil {
			// the handler serialises this structure as JSON; do the same so that we observe what a client sees
			raw, merr := json.Marshal(pr.Data.Result)
			if merr != nil {
				out.PromErr = "marshal: " + merr.Error()
			} else {
				var dec []struct {
					Metric map[string]string `json:"metric"`
					Values [][]interface{}   `json:"values"`
				}
				if uerr := json.Unmarshal(raw, &dec); uerr != nil {
					out.PromErr = "unmarshal: " + uerr.Error()
				}
				for _, d := range dec {
					ps := PromSeries{Metric: d.Metric}
					for _, tv := range d.Values {
						if len(tv) != 2 {
							ps.BadVal = append(ps.BadVal, fmt.Sprint(tv))
							continue
						}
						tf, ok1 := tv[0].(float64)
						vs, ok2 := tv[1].(string)
						if !ok1 || !ok2 {
							ps.BadVal = append(ps.BadVal, fmt.Sprint(tv))
							continue
						}
						f, perr := strconv.ParseFloat(vs, 64)
						if perr != nil {
							ps.BadVal = append(ps.BadVal, vs)
							continue
						}
						ps.Pts = append(ps.Pts, QPoint{T: uint32(tf), Bits: math.Float64bits(f)})
					}
					out.Prom = append(out.Prom, ps)
				}
			}
		}
	}
	return out, nil
}
