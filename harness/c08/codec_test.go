package c08

import (
	"bytes"
	"fmt"
	"math"
	"testing"

	"github.com/siglens/siglens/pkg/segment/writer/metrics/compress"
	"pgregory.net/rapid"

	"verifharness/pt"
)

// C08 layer 1 — the Gorilla codec of a time series round-trips every (timestamp, value) pair
// bit-exactly, both when the stream is finished (block flush: TimeSeries.cFinishFn) and when an
// open stream is cloned and finished for a query (getUnrotatedBlockTimeSeriesIterator).
// The compressor is driven the way metricssegment.go drives it: header = first timestamp.

type codecCase struct {
	Pts []Pt `json:"pts"`
	// CloneAt: after this many points the open compressor is cloned and decoded (0 = never).
	CloneAt int `json:"cloneAt"`
}

func genCodecCase(t *rapid.T) *codecCase {
	n := rapid.IntRange(1, pt.Scale(24, 60)).Draw(t, "n")
	if rapid.IntRange(0, 19).Draw(t, "long") == 0 {
		n = rapid.IntRange(60, pt.Scale(200, 1000)).Draw(t, "nLong")
	}
	t0 := uint32(rapid.IntRange(tsMin, tsMax).Draw(t, "t0"))
	o := tsOpts{maxSpan: 400 * 86400, decreasing: rapid.IntRange(0, 3).Draw(t, "decr") == 0,
		duplicates: rapid.IntRange(0, 3).Draw(t, "dups") == 0}
	ts := genTimestamps(t, n, t0, o)
	vals := genValues(t, len(ts), false)
	c := &codecCase{}
	for i := range ts {
		c.Pts = append(c.Pts, Pt{T: ts[i], Bits: vals[i]})
	}
	if rapid.Bool().Draw(t, "clone") {
		c.CloneAt = rapid.IntRange(1, len(c.Pts)).Draw(t, "cloneAt")
	}
	return c
}

func decodeAll(buf *bytes.Buffer) ([]Pt, error) {
	it, err := compress.NewDecompressIterator(buf)
	if err != nil {
		return nil, fmt.Errorf("NewDecompressIterator: %v", err)
	}
	var out []Pt
	for it.Next() {
		t, v := it.At()
		out = append(out, Pt{T: t, Bits: math.Float64bits(v)})
		if len(out) > 1<<20 {
			return out, fmt.Errorf("decoder does not terminate")
		}
	}
	if err := it.Err(); err != nil {
		return out, fmt.Errorf("iterator error: %v", err)
	}
	return out, nil
}

func comparePts(want, got []Pt) error {
	for i := 0; i < len(want) && i < len(got); i++ {
		if want[i] != got[i] {
			ctx := ""
			if i > 0 {
				ctx = fmt.Sprintf(" (previous point: t=%d v=%v bits=%#016x)", want[i-1].T, want[i-1].V(), want[i-1].Bits)
			}
			return fmt.Errorf("point %d: stored (t=%d v=%v bits=%#016x), read back (t=%d v=%v bits=%#016x)%s",
				i, want[i].T, want[i].V(), want[i].Bits, got[i].T, got[i].V(), got[i].Bits, ctx)
		}
	}
	if len(want) != len(got) {
		return fmt.Errorf("stored %d points, read back %d", len(want), len(got))
	}
	return nil
}

func checkCodec(c *codecCase, o *pt.Obs) error {
	if len(c.Pts) == 0 {
		return nil
	}
	// classification
	ts := make([]uint32, len(c.Pts))
	vals := make([]uint64, len(c.Pts))
	for i, p := range c.Pts {
		ts[i], vals[i] = p.T, p.Bits
		f := p.V()
		if math.IsNaN(f) {
			o.Class("v_nan_bits")
		}
		if p.Bits == uint64(1)<<63 {
			o.Class("v_neg_zero")
		}
	}
	lz32, reuse := xorStats(vals)
	di := dodStats(ts)
	if lz32 {
		o.Class("xor_lz_ge32")
	}
	if reuse {
		o.Class("xor_window_reuse")
	}
	for b := range di.buckets {
		o.Class(b)
	}
	if di.boundary {
		o.Class("dod_boundary")
	}
	if di.decr {
		o.Class("ts_decreasing")
	}
	if di.dup {
		o.Class("ts_duplicate")
	}
	if c.CloneAt > 0 {
		o.Class("clone_open_stream")
	}
	switch {
	case len(c.Pts) == 1:
		o.Class("len_1")
	case len(c.Pts) < 60:
		o.Class("len_2_59")
	default:
		o.Class("len_ge60")
	}
	if len(c.Pts) >= 3 && (lz32 || di.outside) {
		o.NonTrivial()
	}
	o.Count("points", int64(len(c.Pts)))

	buf := new(bytes.Buffer)
	comp, finish, err := compress.NewCompressor(buf, c.Pts[0].T)
	if err != nil {
		return fmt.Errorf("NewCompressor: %v", err)
	}
	for i, p := range c.Pts {
		if _, err := comp.Compress(p.T, p.V()); err != nil {
			return fmt.Errorf("Compress(point %d: t=%d bits=%#x) failed: %v", i, p.T, p.Bits, err)
		}
		if c.CloneAt == i+1 {
			cb := new(bytes.Buffer)
			_, cfinish, err := compress.CloneCompressor(comp, cb)
			if err != nil {
				return fmt.Errorf("CloneCompressor after %d points: %v", i+1, err)
			}
			if err := cfinish(); err != nil {
				return fmt.Errorf("finish of clone after %d points: %v", i+1, err)
			}
			got, err := decodeAll(cb)
			if err != nil {
				return fmt.Errorf("clone after %d points: %v", i+1, err)
			}
			if err := comparePts(c.Pts[:i+1], got); err != nil {
				return fmt.Errorf("clone of the open stream after %d points: %v", i+1, err)
			}
		}
	}
	if err := finish(); err != nil {
		return fmt.Errorf("finish: %v", err)
	}
	got, err := decodeAll(buf)
	if err != nil {
		return err
	}
	return comparePts(c.Pts, got)
}

func TestC08Codec(t *testing.T) { pt.RunProp(t, "C08", genCodecCase, checkCodec) }
