package c08

import (
	"math"
	"math/bits"

	"pgregory.net/rapid"
)

// ---- value sequences ------------------------------------------------------------------------

// The Gorilla value encoding works on the XOR of successive bit patterns: the generator walks
// from a start value through steps chosen to reach every branch of compressValue
// (same value, reuse of the previous window, new window with leading zeros 0..63 — in
// particular >= 32, which does not fit the 5-bit field — and all widths of significant bits).

var startValues = []float64{
	1.0, 0, math.Copysign(0, -1), -1.0, 100, 1e15, 0.1, 123456789.125, 4503599627370496, // 2^52
	math.MaxFloat64, -math.MaxFloat64, math.SmallestNonzeroFloat64, 2.2250738585072014e-308, 9007199254740993,
	1700000000, 3.141592653589793, 65535, 1e-7, 1e300,
}

// genValues draws n bit patterns. finiteOnly: never produce NaN/Inf (the ingest APIs reject
// or rewrite them, so they are outside the e2e domain; the codec itself takes any pattern).
func genValues(t *rapid.T, n int, finiteOnly bool) []uint64 {
	out := make([]uint64, 0, n)
	var cur uint64
	if rapid.IntRange(0, 3).Draw(t, "startKind") == 0 {
		cur = rapid.Uint64().Draw(t, "startBits")
	} else {
		cur = math.Float64bits(rapid.SampledFrom(startValues).Draw(t, "start"))
	}
	fix := func(b uint64) uint64 {
		if !finiteOnly {
			return b
		}
		f := math.Float64frombits(b)
		if math.IsNaN(f) || math.IsInf(f, 0) {
			// clear the top exponent bit: finite, and still an arbitrary mantissa
			return b &^ (uint64(1) << 62)
		}
		return b
	}
	cur = fix(cur)
	out = append(out, cur)
	for len(out) < n {
		var next uint64
		switch rapid.IntRange(0, 11).Draw(t, "vstep") {
		case 0: // same value
			next = cur
		case 1, 2: // 1..3 ULP up or down (XOR confined to the lowest mantissa bits, lz >= 32 typically)
			k := rapid.IntRange(1, 3).Draw(t, "ulps")
			f := math.Float64frombits(cur)
			dir := math.Inf(1)
			if rapid.Bool().Draw(t, "down") {
				dir = math.Inf(-1)
			}
			for i := 0; i < k; i++ {
				f = math.Nextafter(f, dir)
			}
			next = math.Float64bits(f)
		case 3, 4: // XOR mask with chosen leading zeros >= 32
			lz := rapid.IntRange(32, 63).Draw(t, "lz")
			width := rapid.IntRange(1, 64-lz).Draw(t, "width")
			m := rapid.Uint64().Draw(t, "mask") | 1
			m = (m << (64 - uint(width))) >> (64 - uint(width)) // keep `width` low bits
			m |= uint64(1) << uint(width-1)                     // make the top bit of the window 1
			m <<= uint(64 - lz - width)
			next = cur ^ m
		case 5: // XOR mask with arbitrary window (leading 0..31)
			lz := rapid.IntRange(0, 31).Draw(t, "lzSmall")
			width := rapid.IntRange(1, 64-lz).Draw(t, "widthSmall")
			m := rapid.Uint64().Draw(t, "maskSmall") | 1
			m = (m << (64 - uint(width))) >> (64 - uint(width))
			m |= uint64(1) << uint(width-1)
			m <<= uint(64 - lz - width)
			next = cur ^ m
		case 6: // sign flip
			next = cur ^ (uint64(1) << 63)
		case 7: // +0 / -0
			if rapid.Bool().Draw(t, "negzero") {
				next = math.Float64bits(math.Copysign(0, -1))
			} else {
				next = 0
			}
		case 8: // unrelated value (huge exponent change)
			if rapid.Bool().Draw(t, "fromTable") {
				next = math.Float64bits(rapid.SampledFrom(startValues).Draw(t, "jump"))
			} else {
				next = rapid.Uint64().Draw(t, "jumpBits")
			}
		case 9: // integer counter step
			f := math.Float64frombits(cur)
			next = math.Float64bits(f + float64(rapid.IntRange(1, 1000).Draw(t, "inc")))
		case 10: // flip exactly one low bit (window of width 1)
			next = cur ^ (uint64(1) << uint(rapid.IntRange(0, 31).Draw(t, "bit")))
		default: // small relative change
			f := math.Float64frombits(cur)
			next = math.Float64bits(f * (1 + float64(rapid.IntRange(-50, 50).Draw(t, "pct"))/1000))
		}
		next = fix(next)
		out = append(out, next)
		cur = next
	}
	return out
}

// xorStats reports whether some successive XOR has >= 32 leading zeros (and is non-zero).
func xorStats(vals []uint64) (lz32 bool, reuse bool) {
	prevL, prevT := 255, 0
	for i := 1; i < len(vals); i++ {
		x := vals[i-1] ^ vals[i]
		if x == 0 {
			continue
		}
		l, tz := bits.LeadingZeros64(x), bits.TrailingZeros64(x)
		if l >= 32 {
			lz32 = true
		}
		if prevL <= l && prevT <= tz {
			reuse = true
		} else {
			prevL, prevT = l, tz
			if prevL > 31 {
				prevL = 31 // what a correct encoder remembers
			}
		}
	}
	return
}

// ---- timestamp sequences ----------------------------------------------------------------------

const (
	tsMin = 1_000_000_000 // 2001
	tsMax = 2_000_000_000 // 2033 (int32 arithmetic of the encoder stays in range)
)

var dodBoundary = []int64{-2049, -2048, -2047, -2046, -257, -256, -255, -254, -65, -64, -63, -62,
	62, 63, 64, 65, 254, 255, 256, 257, 2046, 2047, 2048, 2049}

// tsOpts bounds a generated timestamp sequence.
type tsOpts struct {
	maxSpan    int64 // maximum distance from the first timestamp (both directions)
	decreasing bool  // allow a timestamp smaller than its predecessor
	duplicates bool  // allow a timestamp equal to an earlier one of the sequence
}

// genTimestamps draws n second-resolution timestamps starting at t0. The walk is described by
// delta-of-delta choices so that every bucket of compressTimestamp and each bucket boundary is hit.
func genTimestamps(t *rapid.T, n int, t0 uint32, o tsOpts) []uint32 {
	out := []uint32{t0}
	seen := map[uint32]bool{t0: true}
	lo, hi := int64(t0)-o.maxSpan, int64(t0)+o.maxSpan
	if !o.decreasing {
		lo = int64(t0)
	}
	if lo < tsMin {
		lo = tsMin
	}
	if hi > tsMax {
		hi = tsMax
	}
	cur := int64(t0)
	delta := int64(0)
	first := true
	for len(out) < n {
		var d int64
		switch rapid.IntRange(0, 9).Draw(t, "tstep") {
		case 0, 1: // regular: same delta (dod 0); the very first delta is a scrape interval
			d = delta
			if first {
				d = int64(rapid.SampledFrom([]int{1, 10, 15, 30, 60, 300}).Draw(t, "interval"))
			}
		case 2: // jitter
			d = delta + int64(rapid.IntRange(-1, 1).Draw(t, "jitter"))
		case 3, 4, 5: // a bucket boundary
			d = delta + rapid.SampledFrom(dodBoundary).Draw(t, "dodB")
		case 6: // anywhere inside the small buckets
			d = delta + int64(rapid.IntRange(-2100, 2100).Draw(t, "dodS"))
		case 7: // large gap (32-bit bucket)
			d = delta + int64(rapid.IntRange(-40_000_000, 40_000_000).Draw(t, "dodL"))
		case 8: // back to a small positive delta after a gap
			d = int64(rapid.IntRange(1, 60).Draw(t, "small"))
		default:
			if o.duplicates {
				d = 0
			} else {
				d = int64(rapid.IntRange(1, 3600).Draw(t, "pos"))
			}
		}
		nx := cur + d
		if !o.decreasing && nx < cur {
			nx = cur + int64(rapid.IntRange(1, 120).Draw(t, "fwd"))
		}
		if nx < lo || nx > hi {
			// fold back into the allowed window
			span := hi - lo
			if span <= 0 {
				nx = lo
			} else {
				nx = lo + ((nx-lo)%span+span)%span
			}
			if !o.decreasing && nx < cur {
				nx = cur + 1
				if nx > hi {
					break
				}
			}
		}
		if !o.duplicates && seen[uint32(nx)] {
			// find the next free second upwards
			for seen[uint32(nx)] && nx < hi {
				nx++
			}
			if seen[uint32(nx)] {
				break
			}
		}
		seen[uint32(nx)] = true
		out = append(out, uint32(nx))
		delta = nx - cur
		cur = nx
		first = false
	}
	return out
}

// dodStats classifies the delta-of-delta sequence of ts as the encoder sees it
// (first delta relative to the header = first timestamp, i.e. 0).
type dodInfo struct {
	buckets  map[string]bool
	boundary bool // some dod sits exactly on a bucket limit (+-1 around it)
	outside  bool // some |dod| > 64
	decr     bool
	dup      bool
}

func dodStats(ts []uint32) dodInfo {
	in := dodInfo{buckets: map[string]bool{}}
	seen := map[uint32]bool{}
	var prevDelta int64
	for i, t := range ts {
		if seen[t] {
			in.dup = true
		}
		seen[t] = true
		if i == 0 {
			continue
		}
		d := int64(t) - int64(ts[i-1])
		if d < 0 {
			in.decr = true
		}
		dod := d - prevDelta
		prevDelta = d
		switch {
		case dod == 0:
			in.buckets["dod0"] = true
		case -63 <= dod && dod <= 64:
			in.buckets["dod7"] = true
		case -255 <= dod && dod <= 256:
			in.buckets["dod9"] = true
		case -2047 <= dod && dod <= 2048:
			in.buckets["dod12"] = true
		default:
			in.buckets["dod32"] = true
		}
		if dod > 64 || dod < -64 {
			in.outside = true
		}
		for _, b := range dodBoundary {
			if dod == b {
				in.boundary = true
			}
		}
	}
	return in
}
