package c08

import (
	"encoding/json"
	"errors"
	"fmt"
	"math/bits"
	"regexp"
	"sort"
	"strconv"
	"strings"
	"testing"
	"time"

	"pgregory.net/rapid"

	"verifharness/pt"
	"verifharness/sut"
)

// C08 layer 2 — datapoints sent through the OpenTSDB put handler or the Prometheus remote-write
// handler come back from a selector query (step 1 s) per series with the same timestamps and
// bit-identical values, with the ingested tags, before and after block rotation, segment
// rotation, the shutdown flush, and a restart on the same data directory.

const (
	kfCollision = "C08-tsid-concat-collision"
	kfDelims    = "C08-seriesid-delimiters"
	kfNoTags    = "C08-notags-invisible"
	kfBackslash = "C08-prom-backslash-value"
	kfNaNText   = "C08-otsdb-nan-text"
	kfMetaWal   = "C08-meta-wal-stale-entry"
)

// Step is one element of a case history.
//
//	put      send Samples in one request
//	block    size-triggered block rotation (CheckAndRotate(false), block threshold reached)
//	segment  size-triggered segment rotation (CheckAndRotate(false), segment threshold reached)
//	restart  graceful shutdown (ForceFlushMetricsBlock, process exit) and a new process on the same directory
//
// ForceFlushMetricsBlock is the shutdown path: the process is not queried after it (the flushed
// segment is then registered as rotated while its in-memory twin still exists, a state that
// exists only during shutdown).
type Step struct {
	Op      string   `json:"op"`
	Samples []Sample `json:"samples,omitempty"`
	MsTs    bool     `json:"msTs,omitempty"`  // otsdb: timestamp in milliseconds
	Style   int      `json:"style,omitempty"` // otsdb: number rendering
}

type e2eCase struct {
	Proto  string   `json:"proto"` // prom | otsdb
	Series []Series `json:"series"`
	Steps  []Step   `json:"steps"`
	Sel    int      `json:"sel"` // series used for the selector query with tag matchers (-1: none)
}

// ---- alphabets --------------------------------------------------------------------------------

// Prometheus remote write: metric names [a-zA-Z_:][a-zA-Z0-9_:]*, label names
// [a-zA-Z_][a-zA-Z0-9_]* (not starting with __, which is reserved), label values any UTF-8.
var (
	promNames  = []string{"m", "cpu", "a", "ab", "a__b", "job:rate5m", "x_", "_x", "NaN_total", "m__a", "up"}
	promKeys   = []string{"a", "b", "c", "ab", "bc", "host", "le", "a__b", "b__", "_k", "k2", "xb", "ac"}
	promValues = []string{"", "1", "2", "a", "b", "c", "x", "xa", "bc", "ab", "__", "a__2", "1a__2", "x__b", ":", "a:b", "localhost:9090",
		"}", "\"", "q\"r", "é", "日本", " ", "a b", "NaN", "=", "/api/v1", "*", "0.5", "+Inf",
		",", "a,b:c", "{", "q{r}", "\\", "C:\\dir", "a\\nb", "\\u0041"}
)

// OpenTSDB put: metric, tag keys and tag values consist of a-z A-Z 0-9 - _ . / and unicode
// letters. '/' is left out of tag keys (a tag key names a file of the tags tree).
var (
	otsdbNames = []string{"m", "cpu.user", "sys-load", "a", "ab", "a__b", "x/y", "m__a", "é", "m0", "Ba0a"}
	// names containing the text NaN run into known finding C08-otsdb-nan-text: drawn rarely
	otsdbNaNNames = []string{"BaNaNa", "NaN.count"}
	otsdbKeys     = []string{"a", "b", "c", "ab", "bc", "host", "dc", "a__b", "b__", "k.x", "k-y", "xb", "ac"}
	otsdbValues   = []string{"", "1", "2", "a", "b", "c", "x", "xa", "bc", "ab", "__", "a__2", "1a__2", "x__b", "web-01", "eu.west", "a/b",
		"é", "日本", "NaN", "0", "xNaN", "0.5"}
)

var identRe = regexp.MustCompile(`^[a-zA-Z_][a-zA-Z0-9_]*$`)
var metricIdentRe = regexp.MustCompile(`^[a-zA-Z_:][a-zA-Z0-9_:]*$`)

// pct is true with a probability of roughly p percent (p <= 25). rapid's integer generator is
// heavily biased towards small values and the bounds; the values in the middle of 0..99 come
// with about 0.5 % each, so a window of 2p of them is used.
func pct(t *rapid.T, label string, p int) bool {
	x := rapid.IntRange(0, 99).Draw(t, label)
	return x >= 40 && x < 40+2*p
}

func genTags(t *rapid.T, keys, values, rare []string, max int) []Tag {
	n := rapid.IntRange(1, max).Draw(t, "ntags")
	if pct(t, "noTags", 3) {
		n = 0 // a series that is only a metric name
	}
	var out []Tag
	used := map[string]bool{}
	for len(out) < n {
		k := rapid.SampledFrom(keys).Draw(t, "key")
		if used[k] {
			// derive a fresh key
			k = k + strconv.Itoa(len(out))
			if used[k] {
				break
			}
		}
		used[k] = true
		var v string
		if len(rare) > 0 && pct(t, "rareVal", 8) {
			v = rapid.SampledFrom(rare).Draw(t, "valRare")
		} else {
			v = rapid.SampledFrom(values).Draw(t, "val")
		}
		out = append(out, Tag{K: k, V: v})
	}
	return out
}

// collisionTwins returns two different tag sets (and names) whose TSID key strings
// name__key__value key__value… (keys in descending order, no separator after a value) are equal.
func collisionTwins(t *rapid.T, name string) (Series, Series) {
	v := rapid.SampledFrom([]string{"x", "1", "q", ""}).Draw(t, "twV")
	u := rapid.SampledFrom([]string{"a", "0", "b1"}).Draw(t, "twU")
	w := rapid.SampledFrom([]string{"1", "z", ""}).Draw(t, "twW")
	switch rapid.IntRange(0, 2).Draw(t, "twin") {
	case 0: // ("c", v+u), ("b", w)  vs  ("c", v), (u+"b", w): no special character needed
		return Series{Name: name, Tags: []Tag{{"c", v + u}, {"b", w}}}, Series{Name: name, Tags: []Tag{{"c", v}, {u + "b", w}}}
	case 1: // ("b", v), ("a", w)  vs  ("b", v+"a__"+w): the separator inside a value
		return Series{Name: name, Tags: []Tag{{"b", v}, {"a", w}}}, Series{Name: name, Tags: []Tag{{"b", v + "a__" + w}}}
	default: // across metric names: name, ("b__c", v) vs name__b, ("c", v)
		return Series{Name: name, Tags: []Tag{{"b__c", v}}}, Series{Name: name + "__b", Tags: []Tag{{"c", v}}}
	}
}

// identity of a series for the oracle: metric name and the tags with non-empty values.
// (An empty label value means "label absent" in Prometheus; whether such a tag is reported is a
// don't-care, so two series that differ only in empty-valued tags are never generated.)
func canonKey(name string, tags []Tag) string {
	var kv [][2]string
	for _, tg := range tags {
		if tg.V != "" {
			kv = append(kv, [2]string{tg.K, tg.V})
		}
	}
	sort.Slice(kv, func(i, j int) bool { return kv[i][0] < kv[j][0] })
	b, _ := json.Marshal(struct {
		N string
		T [][2]string
	}{name, kv})
	return string(b)
}

func genE2ECase(t *rapid.T) *e2eCase {
	cs := &e2eCase{Sel: -1}
	cs.Proto = rapid.SampledFrom([]string{"prom", "prom", "otsdb"}).Draw(t, "proto")
	names, keys, values := promNames, promKeys, promValues
	if cs.Proto == "otsdb" {
		names, keys, values = otsdbNames, otsdbKeys, otsdbValues
	}
	// a case uses few metric names so that several series share one
	nNames := rapid.IntRange(1, 3).Draw(t, "nNames")
	var caseNames []string
	for i := 0; i < nNames; i++ {
		if cs.Proto == "otsdb" && pct(t, "nanName", 4) {
			caseNames = append(caseNames, rapid.SampledFrom(otsdbNaNNames).Draw(t, "nameNaN"))
			continue
		}
		caseNames = append(caseNames, rapid.SampledFrom(names).Draw(t, "name"))
	}
	// values that run into the open known findings (series-id delimiters, backslash, NaN text) are
	// drawn rarely and only in half of the cases, so that most metric names stay fully checked
	var rare []string
	if cs.Proto == "prom" {
		values, rare = values[:30], values[30:]
	} else {
		values, rare = values[:19], values[19:]
	}
	if rapid.Bool().Draw(t, "tame") {
		rare = nil
	}
	nSeries := rapid.IntRange(1, pt.Scale(5, 8)).Draw(t, "nSeries")
	seen := map[string]bool{}
	add := func(s Series) {
		k := canonKey(s.Name, s.Tags)
		if seen[k] {
			return
		}
		seen[k] = true
		cs.Series = append(cs.Series, s)
	}
	for i := 0; i < nSeries; i++ {
		if pct(t, "twins", 4) {
			a, b := collisionTwins(t, rapid.SampledFrom(caseNames).Draw(t, "twName"))
			add(a)
			add(b)
			continue
		}
		if len(cs.Series) > 0 && pct(t, "sameTags", 10) {
			// the tag set of an earlier series under another metric name, or the same name with one
			// tag more / one value changed: series that differ in exactly one component
			src := cs.Series[rapid.IntRange(0, len(cs.Series)-1).Draw(t, "srcSeries")]
			tags := append([]Tag(nil), src.Tags...)
			name := src.Name
			switch rapid.IntRange(0, 2).Draw(t, "variant") {
			case 0:
				name = rapid.SampledFrom(names).Draw(t, "otherName")
			case 1:
				if len(tags) > 0 {
					tags[len(tags)-1].V = rapid.SampledFrom(values).Draw(t, "otherVal")
				}
			default:
				has := false
				for _, tg := range tags {
					has = has || tg.K == "zz"
				}
				if !has {
					tags = append(tags, Tag{K: "zz", V: rapid.SampledFrom(values).Draw(t, "extraVal")})
				}
			}
			add(Series{Name: name, Tags: tags})
			continue
		}
		add(Series{Name: rapid.SampledFrom(caseNames).Draw(t, "sName"), Tags: genTags(t, keys, values, rare, 5)})
	}
	// datapoints
	maxSpan := rapid.SampledFrom([]int64{600, 7200, 86400, 40 * 86400}).Draw(t, "span")
	base := uint32(rapid.IntRange(tsMin+41*86400, tsMax-41*86400).Draw(t, "base"))
	for i := range cs.Series {
		n := rapid.IntRange(1, pt.Scale(10, 40)).Draw(t, "npts")
		t0 := base + uint32(rapid.IntRange(0, 120).Draw(t, "off"))
		o := tsOpts{maxSpan: maxSpan, decreasing: rapid.IntRange(0, 3).Draw(t, "decr") == 0,
			duplicates: rapid.IntRange(0, 5).Draw(t, "dups") == 0}
		ts := genTimestamps(t, n, t0, o)
		vals := genValues(t, len(ts), true)
		for j := range ts {
			cs.Series[i].Pts = append(cs.Series[i].Pts, Pt{T: ts[j], Bits: vals[j]})
		}
	}
	// send order: series interleaved, each series in its own order
	next := make([]int, len(cs.Series))
	var order []Sample
	remaining := 0
	for _, s := range cs.Series {
		remaining += len(s.Pts)
	}
	for remaining > 0 {
		var open []int
		for i, s := range cs.Series {
			if next[i] < len(s.Pts) {
				open = append(open, i)
			}
		}
		si := open[rapid.IntRange(0, len(open)-1).Draw(t, "pick")]
		run := rapid.IntRange(1, 4).Draw(t, "run")
		for r := 0; r < run && next[si] < len(cs.Series[si].Pts); r++ {
			order = append(order, Sample{S: si, P: next[si]})
			next[si]++
			remaining--
		}
	}
	// history
	nBatches := rapid.IntRange(1, 4).Draw(t, "nBatches")
	if nBatches > len(order) {
		nBatches = len(order)
	}
	pos := 0
	for b := 0; b < nBatches; b++ {
		size := len(order) - pos
		if b < nBatches-1 {
			size = rapid.IntRange(1, len(order)-pos-(nBatches-1-b)).Draw(t, "batch")
		}
		st := Step{Op: "put", Samples: order[pos : pos+size]}
		if cs.Proto == "otsdb" {
			st.MsTs = rapid.Bool().Draw(t, "msTs")
			st.Style = rapid.IntRange(0, 1).Draw(t, "style")
		}
		pos += size
		cs.Steps = append(cs.Steps, st)
		last := b == nBatches-1
		var act string
		if last {
			act = rapid.SampledFrom([]string{"", "block", "segment", "restart", "restart"}).Draw(t, "finalAct")
		} else {
			act = rapid.SampledFrom([]string{"", "block", "block", "segment", "segment", "restart"}).Draw(t, "act")
		}
		if act != "" {
			cs.Steps = append(cs.Steps, Step{Op: act})
		}
		if last && (act == "block" || act == "segment") && rapid.Bool().Draw(t, "thenRestart") {
			cs.Steps = append(cs.Steps, Step{Op: "restart"})
		}
	}
	if len(cs.Series) > 0 && rapid.IntRange(0, 3).Draw(t, "withSel") != 0 {
		cs.Sel = rapid.IntRange(0, len(cs.Series)-1).Draw(t, "sel")
	}
	return cs
}

// ---- input predicates of the known findings --------------------------------------------------------

// effective returns the text the OTSDB path really parses: it replaces the text NaN by 0 in the
// whole request body before parsing (known finding C08-otsdb-nan-text).
func effective(proto, s string) string {
	if proto == "otsdb" {
		return strings.ReplaceAll(s, "NaN", "0")
	}
	return s
}

// tsidKey rebuilds the byte string that TagsHolder.GetTSID hashes: name, "__", then for every
// tag in descending key order: key, "__", value — no separator after the value.
func tsidKey(proto string, s *Series) string {
	tags := append([]Tag(nil), s.Tags...)
	for i := range tags {
		tags[i].K = effective(proto, tags[i].K)
		tags[i].V = effective(proto, tags[i].V)
	}
	sort.Slice(tags, func(i, j int) bool { return tags[i].K > tags[j].K })
	var sb strings.Builder
	sb.WriteString(effective(proto, s.Name))
	sb.WriteString("__")
	for _, tg := range tags {
		sb.WriteString(tg.K)
		sb.WriteString("__")
		sb.WriteString(tg.V)
	}
	return sb.String()
}

type exclusion struct {
	names map[string]string // metric name -> known finding id that makes it unobservable
	hit   map[string]bool   // finding ids touched by this case
}

// knownExclusions evaluates the input predicates of the open known findings. A series in such a
// class can also distort what is reported for other series of the same metric name (merged or
// mis-split series ids), so the unit of exclusion is the metric name.
func knownExclusions(cs *e2eCase) *exclusion {
	ex := &exclusion{names: map[string]string{}, hit: map[string]bool{}}
	mark := func(name, id string) {
		if _, ok := ex.names[name]; !ok {
			ex.names[name] = id
		}
		ex.hit[id] = true
	}
	byKey := map[string][]int{}
	for i := range cs.Series {
		s := &cs.Series[i]
		byKey[tsidKey(cs.Proto, s)] = append(byKey[tsidKey(cs.Proto, s)], i)
		if len(s.Tags) == 0 && pt.KnownFindingOpen(kfNoTags) {
			// such a series is simply never returned; it does not disturb the other series of
			// its metric name, so only the series itself is taken out of the oracle (see expectedFor)
			ex.hit[kfNoTags] = true
		}
		for _, tg := range s.Tags {
			if strings.ContainsAny(tg.V, ",{") && pt.KnownFindingOpen(kfDelims) {
				mark(s.Name, kfDelims)
			}
			if cs.Proto == "prom" && strings.Contains(tg.V, `\`) && pt.KnownFindingOpen(kfBackslash) {
				mark(s.Name, kfBackslash)
			}
		}
		if cs.Proto == "otsdb" && pt.KnownFindingOpen(kfNaNText) {
			nan := strings.Contains(s.Name, "NaN")
			for _, tg := range s.Tags {
				nan = nan || strings.Contains(tg.K, "NaN") || strings.Contains(tg.V, "NaN")
			}
			if nan {
				mark(s.Name, kfNaNText)
				mark(effective(cs.Proto, s.Name), kfNaNText)
			}
		}
	}
	if pt.KnownFindingOpen(kfCollision) {
		for _, idx := range byKey {
			if len(idx) < 2 {
				continue
			}
			for _, i := range idx {
				mark(cs.Series[i].Name, kfCollision)
				mark(effective(cs.Proto, cs.Series[i].Name), kfCollision)
			}
		}
	}
	return ex
}

func hasCollision(cs *e2eCase) bool {
	seen := map[string]bool{}
	for i := range cs.Series {
		k := tsidKey(cs.Proto, &cs.Series[i])
		if seen[k] {
			return true
		}
		seen[k] = true
	}
	return false
}

// ---- the check ----------------------------------------------------------------------------------

func validCase(cs *e2eCase) error {
	if cs.Proto != "prom" && cs.Proto != "otsdb" {
		return fmt.Errorf("bad proto %q", cs.Proto)
	}
	for _, st := range cs.Steps {
		for _, sm := range st.Samples {
			if sm.S < 0 || sm.S >= len(cs.Series) || sm.P < 0 || sm.P >= len(cs.Series[sm.S].Pts) {
				return fmt.Errorf("sample %+v out of range", sm)
			}
		}
	}
	if cs.Sel >= len(cs.Series) {
		return fmt.Errorf("sel out of range")
	}
	return nil
}

func classifyE2E(cs *e2eCase, ex *exclusion, o *pt.Obs) {
	o.Class("proto_" + cs.Proto)
	restarts := 0
	for i, st := range cs.Steps {
		switch st.Op {
		case "block":
			o.Class("hist_block_rotation")
		case "segment":
			o.Class("hist_segment_rotation")
		case "restart":
			restarts++
			o.Class("hist_restart")
			if i < len(cs.Steps)-1 {
				o.Class("hist_ingest_after_restart")
			}
		case "put":
			if st.MsTs {
				o.Class("otsdb_ms_timestamps")
			}
		}
	}
	if restarts >= 2 {
		o.Class("hist_multi_restart")
	}
	segSeen := false
	for _, st := range cs.Steps {
		if st.Op == "segment" {
			segSeen = true
		}
		if st.Op == "restart" && segSeen && pt.KnownFindingOpen(kfMetaWal) {
			o.Known(kfMetaWal)
			break
		}
	}
	nt := false
	for i := range cs.Series {
		s := &cs.Series[i]
		ts := make([]uint32, len(s.Pts))
		vals := make([]uint64, len(s.Pts))
		for j, p := range s.Pts {
			ts[j], vals[j] = p.T, p.Bits
			if p.Bits == uint64(1)<<63 {
				o.Class("v_neg_zero")
			}
		}
		lz32, _ := xorStats(vals)
		di := dodStats(ts)
		if lz32 {
			o.Class("xor_lz_ge32")
		}
		if di.outside {
			o.Class("dod_outside_64")
		}
		if di.boundary {
			o.Class("dod_boundary")
		}
		if di.decr {
			o.Class("ts_decreasing")
		}
		if di.dup {
			o.Class("ts_duplicate")
		}
		if len(s.Pts) >= 3 && (lz32 || di.outside) {
			nt = true
		}
		if len(s.Tags) == 0 {
			o.Class("tags_none")
		}
		for _, tg := range s.Tags {
			if strings.Contains(tg.K, "__") || strings.Contains(tg.V, "__") || strings.Contains(s.Name, "__") {
				o.Class("tags_tsid_separator")
			}
			if tg.V == "" {
				o.Class("tags_empty_value")
			}
			if strings.ContainsAny(tg.V, ":}\"= *") {
				o.Class("tags_punctuation")
			}
			for _, r := range tg.V {
				if r > 127 {
					o.Class("tags_unicode")
					break
				}
			}
		}
	}
	if hasCollision(cs) {
		o.Class("tsid_key_collision")
		nt = true
	}
	if nt {
		o.NonTrivial()
	}
	for id := range ex.hit {
		o.Known(id)
	}
	o.Count("series", int64(len(cs.Series)))
}

type expSeries struct {
	idx      int
	optional bool // may be absent from the answer (known finding C08-notags-invisible; non-target series of a matcher query)
	// partialOK: a subset of the sent points is acceptable (non-target series of a matcher query:
	// which series and segments a matcher selects is C09's subject); returned points must still be genuine
	partialOK bool
	name      string
	tags      map[string]string // non-empty valued tags
	all       map[string]string // all tags
	pts       map[uint32][]uint64
	outside   map[uint32][]uint64 // sub-range query: sent points outside the must-return window (may be returned)
}

// cuts returns up to three timestamps c at which no point of the series lies (c-1 holds a point, the next point is
// later than c): the first such gap, the one nearest the middle and the last. A sub-range query ending / starting at c
// then has no point on its boundary second.
func cuts(exp []*expSeries) []uint32 {
	seen := map[uint32]bool{}
	for _, e := range exp {
		for t := range e.pts {
			seen[t] = true
		}
	}
	ts := make([]uint32, 0, len(seen))
	for t := range seen {
		ts = append(ts, t)
	}
	sort.Slice(ts, func(i, j int) bool { return ts[i] < ts[j] })
	var gaps []uint32
	for i := 0; i+1 < len(ts); i++ {
		if ts[i+1] >= ts[i]+2 {
			gaps = append(gaps, ts[i]+1)
		}
	}
	if len(gaps) <= 3 {
		return gaps
	}
	return []uint32{gaps[0], gaps[len(gaps)/2], gaps[len(gaps)-1]}
}

func (e *expSeries) describe() string {
	return fmt.Sprintf("%s%v", e.name, e.all)
}

func fmtPts(m map[uint32][]uint64) string {
	var ts []uint32
	for t := range m {
		ts = append(ts, t)
	}
	sort.Slice(ts, func(i, j int) bool { return ts[i] < ts[j] })
	var sb strings.Builder
	for _, t := range ts {
		for _, b := range m[t] {
			fmt.Fprintf(&sb, " (%d, %v = %#016x)", t, Pt{Bits: b}.V(), b)
		}
	}
	return sb.String()
}

func fmtQPts(p []QPoint) string {
	var sb strings.Builder
	for _, q := range p {
		fmt.Fprintf(&sb, " (%d, %v = %#016x)", q.T, Pt{Bits: q.Bits}.V(), q.Bits)
	}
	return sb.String()
}

// compareSeriesPoints: every returned point was sent with exactly these bits; every sent point is
// returned. A timestamp sent more than once in the series is a don't-care (presence and value).
func compareSeriesPoints(e *expSeries, got []QPoint) error {
	seen := map[uint32]bool{}
	for _, q := range got {
		want, ok := e.pts[q.T]
		if !ok {
			want, ok = e.outside[q.T] // sub-range query: a sent point next to the window
		}
		if !ok {
			return fmt.Errorf("returned point (t=%d, v=%v) was never sent for this series", q.T, Pt{Bits: q.Bits}.V())
		}
		if seen[q.T] {
			return fmt.Errorf("timestamp %d returned twice", q.T)
		}
		seen[q.T] = true
		if len(want) == 1 && want[0] != q.Bits {
			return fmt.Errorf("value at t=%d: sent %v (bits %#016x, text %q), returned %v (bits %#016x); xor=%#016x leadingZeros=%d",
				q.T, Pt{Bits: want[0]}.V(), want[0], floatText(Pt{Bits: want[0]}.V(), 0), Pt{Bits: q.Bits}.V(), q.Bits,
				want[0]^q.Bits, bits.LeadingZeros64(want[0]^q.Bits))
		}
	}
	for t, want := range e.pts {
		if len(want) == 1 && !seen[t] && !e.partialOK {
			return fmt.Errorf("sent point (t=%d, v=%v) is missing", t, Pt{Bits: want[0]}.V())
		}
	}
	return nil
}

type runner struct {
	cs      *e2eCase
	ex      *exclusion
	o       *pt.Obs
	c       *sut.Client
	dataDir string
	acked   [][]Pt // per series: acknowledged points in send order
	lo, hi  uint32
}

func (r *runner) start(restart bool) error {
	opts := sut.Options{DataDir: r.dataDir, Env: map[string]string{"VERIF_LOGLEVEL": "error"}, Timeout: 120 * time.Second}
	if restart && pt.KnownFindingOpen(kfMetaWal) {
		// Known finding C08-meta-wal-stale-entry: at start-up RecoverMEntryWALData appends the last
		// 1-second snapshot of the meta-entry WAL to metricmeta.json. If that snapshot was taken
		// while a since-rotated segment was still empty or partly filled (a matter of timer phase,
		// not of the input), it overrides the segment's final entry and the segment's data is no
		// longer searched. To keep the verdict a function of the case, a restarted worker skips the
		// WAL recovery functions (after the shutdown flush there is nothing legitimate to recover).
		opts.Features = []string{"nowalrecover"}
	}
	c, err := sut.Start(opts)
	if err != nil {
		return pt.Inconclusivef("worker start: %v", err)
	}
	r.c = c
	return nil
}

// call wraps a worker command: death and panics are violations, timeouts are inconclusive.
func (r *runner) call(req *sut.Req, out interface{}, what string) error {
	err := r.c.Call(req, out)
	if err == nil {
		return nil
	}
	if errors.Is(err, sut.ErrWorkerDied) {
		return fmt.Errorf("server process died during %s: %s", what, pt.CrashDetail(r.c))
	}
	if errors.Is(err, sut.ErrTimeout) {
		// the client has sent SIGQUIT: the goroutine dump tells a stall of the machine from a deadlock
		dump := r.c.Stderr()
		if i := strings.Index(dump, "c08.op"); i > 0 && len(dump) > 3000 {
			lo := i - 1500
			if lo < 0 {
				lo = 0
			}
			dump = dump[lo:]
		}
		if len(dump) > 3000 {
			dump = dump[:3000]
		}
		return pt.Inconclusivef("%s timed out; goroutines:\n%s", what, dump)
	}
	var oe *sut.OpError
	if errors.As(err, &oe) && strings.HasPrefix(oe.Msg, "PANIC") {
		return fmt.Errorf("panic during %s: %.2000s", what, oe.Msg)
	}
	return pt.Inconclusivef("%s failed: %v", what, err)
}

func (r *runner) expectedFor(name string, need func(*expSeries) bool) []*expSeries {
	var out []*expSeries
	for i := range r.cs.Series {
		s := &r.cs.Series[i]
		if s.Name != name || len(r.acked[i]) == 0 {
			continue
		}
		e := &expSeries{idx: i, name: name, tags: map[string]string{}, all: map[string]string{}, pts: map[uint32][]uint64{}}
		for _, tg := range s.Tags {
			e.all[tg.K] = tg.V
			if tg.V != "" {
				e.tags[tg.K] = tg.V
			}
		}
		for _, p := range r.acked[i] {
			e.pts[p.T] = append(e.pts[p.T], p.Bits)
		}
		e.optional = len(s.Tags) == 0 && pt.KnownFindingOpen(kfNoTags)
		if need == nil || need(e) {
			out = append(out, e)
		}
	}
	return out
}

// checkQuery runs one query and compares the returned series with the expected ones.
func (r *runner) checkQuery(text string, exp []*expSeries, stage string, ignoreContent bool) error {
	return r.checkQueryRange(text, exp, stage, ignoreContent, r.lo-1, r.hi+1, 0, 0)
}

// checkQueryRange: the query is evaluated over [start,end]. mustLo/mustHi (0,0 = whole series) bound the points
// that MUST come back: mustLo <= t <= mustHi. Points of the series outside [mustLo,mustHi] may or may not be
// returned (how the boundary second itself is treated is not fixed by the statement), but every returned point
// must be one that was sent, bit-exactly.
func (r *runner) checkQueryRange(text string, exp []*expSeries, stage string, ignoreContent bool, start, end, mustLo, mustHi uint32) error {
	var qr QueryResult
	if err := r.call(&sut.Req{Op: "c08.query", Text: text, Start: uint64(start), End: uint64(end)}, &qr, "query "+text); err != nil {
		return err
	}
	windowed := mustLo != 0 || mustHi != 0
	if windowed {
		// expectations restricted to the window: copies, so that the callers' series stay whole
		var wexp []*expSeries
		for _, e := range exp {
			c := *e
			c.pts = map[uint32][]uint64{}
			c.outside = map[uint32][]uint64{}
			for t, b := range e.pts {
				if t >= mustLo && t <= mustHi {
					c.pts[t] = b
				} else {
					c.outside[t] = b
				}
			}
			if len(c.pts) == 0 {
				c.optional = true // nothing of this series has to be returned
			}
			wexp = append(wexp, &c)
		}
		exp = wexp
	}
	if ignoreContent {
		return nil
	}
	fail := func(f string, a ...interface{}) error {
		var sb strings.Builder
		fmt.Fprintf(&sb, "%s: query %s [%d,%d]: %s", stage, text, start, end, fmt.Sprintf(f, a...))
		if windowed {
			fmt.Fprintf(&sb, " (sub-range query: points with %d <= t <= %d must be returned, points outside may be)", mustLo, mustHi)
		}
		sb.WriteString("\n  expected series:")
		for _, e := range exp {
			fmt.Fprintf(&sb, "\n    %s:%s", e.describe(), fmtPts(e.pts))
		}
		sb.WriteString("\n  returned series:")
		for _, p := range qr.Prom {
			fmt.Fprintf(&sb, "\n    %v:%s", p.Metric, fmtQPts(p.Pts))
		}
		for _, s := range qr.Series {
			fmt.Fprintf(&sb, "\n    (internal id %q: %d points)", s.ID, len(s.Pts))
		}
		return errors.New(sb.String())
	}
	if qr.ConvErr != "" {
		return pt.Inconclusivef("query %s was not accepted by the PromQL front end: %s", text, qr.ConvErr)
	}
	if len(qr.ErrList) > 0 || qr.PromErr != "" {
		return fail("query answered with errors %v %s", qr.ErrList, qr.PromErr)
	}
	byKey := map[string]*expSeries{}
	for _, e := range exp {
		var tags []Tag
		for k, v := range e.tags {
			tags = append(tags, Tag{k, v})
		}
		byKey[canonKey(e.name, tags)] = e
	}
	matched := map[string]bool{}
	for _, p := range qr.Prom {
		if len(p.BadVal) > 0 {
			return fail("unparsable values in the response: %v", p.BadVal)
		}
		name := p.Metric["__name__"]
		var tags []Tag
		for k, v := range p.Metric {
			if k != "__name__" {
				tags = append(tags, Tag{k, v})
			}
		}
		key := canonKey(name, tags)
		e := byKey[key]
		if e == nil {
			return fail("returned series %v does not correspond to any sent (name, tag set) — tags altered, series merged or invented", p.Metric)
		}
		if matched[key] {
			return fail("series %v returned twice", p.Metric)
		}
		matched[key] = true
		// empty-valued tags may be reported or dropped; a reported one must be the one sent
		for k, v := range p.Metric {
			if k != "__name__" && v == "" {
				if sv, ok := e.all[k]; !ok || sv != "" {
					return fail("series %v reports tag %q which was not sent", p.Metric, k)
				}
			}
		}
		if err := compareSeriesPoints(e, p.Pts); err != nil {
			return fail("series %s: %v", e.describe(), err)
		}
	}
	for key, e := range byKey {
		if !matched[key] {
			if e.optional {
				continue
			}
			onlyDup := true
			for _, b := range e.pts {
				if len(b) == 1 {
					onlyDup = false
				}
			}
			if onlyDup {
				continue
			}
			return fail("series %s was not returned", e.describe())
		}
	}
	return nil
}

func promQuote(s string) string { return strconv.Quote(s) }

func (r *runner) verify(stage string) error {
	// let the periodic tags-tree flush "have happened" (see opSettle)
	if err := r.call(&sut.Req{Op: "c08.settle"}, nil, "tags tree flush"); err != nil {
		return err
	}
	names := map[string]bool{}
	for i := range r.cs.Series {
		names[r.cs.Series[i].Name] = true
	}
	for _, name := range pt.SortedKeys(names) {
		_, excluded := r.ex.names[name]
		q := `{__name__=` + promQuote(name) + `}`
		exp := r.expectedFor(name, nil)
		if excluded {
			r.o.Count("names_excluded_by_known_finding", 1)
		} else {
			r.o.Count("names_checked", 1)
		}
		if err := r.checkQuery(q, exp, stage, excluded); err != nil {
			return err
		}
		if excluded {
			continue
		}
		// the same selector over sub-ranges of the time axis: some series lie wholly or partly outside the range
		for _, c := range cuts(exp) {
			r.o.Count("sub_range_queries", 2)
			if err := r.checkQueryRange(q, exp, stage, false, r.lo-1, c, r.lo-1, c-1); err != nil {
				return err
			}
			if err := r.checkQueryRange(q, exp, stage, false, c, r.hi+1, c+1, r.hi+1); err != nil {
				return err
			}
		}
	}
	// selector with equality matchers on the tags of one series
	if r.cs.Sel >= 0 {
		s := &r.cs.Series[r.cs.Sel]
		if _, excluded := r.ex.names[s.Name]; !excluded && len(r.acked[r.cs.Sel]) > 0 && metricIdentRe.MatchString(s.Name) {
			var ms []string
			for _, tg := range s.Tags {
				// "*" as a matcher value is SigLens' wildcard (matcher semantics belong to C09), and an
				// empty matcher value means "label absent" in PromQL: neither is used as a matcher
				if tg.V != "" && tg.V != "*" && identRe.MatchString(tg.K) && !strings.HasPrefix(tg.K, "__") {
					ms = append(ms, tg.K+"="+promQuote(tg.V))
				}
			}
			if len(ms) > 0 {
				q := s.Name + "{" + strings.Join(ms, ",") + "}"
				// C08 asks that the series is returned by a selector for it, exactly. Which other
				// series of the metric a set of matchers selects is matcher semantics (C09): e.g. a
				// matcher on a key that has no tags-tree file in an older tags-tree directory is
				// ignored there. Other returned series must still be genuine (sent name, tags, points).
				exp := r.expectedFor(s.Name, nil)
				for _, e := range exp {
					if e.idx != r.cs.Sel {
						e.optional = true
						e.partialOK = true
					}
				}
				r.o.Count("selector_queries", 1)
				if err := r.checkQuery(q, exp, stage, false); err != nil {
					return err
				}
			}
		}
	}
	return nil
}

func (r *runner) put(st *Step, stepNo int) error {
	var body []byte
	var err error
	if r.cs.Proto == "prom" {
		body, err = promBody(r.cs.Series, st.Samples)
		if err != nil {
			return pt.Inconclusivef("cannot build remote-write body: %v", err)
		}
	} else {
		body = otsdbBody(r.cs.Series, st.Samples, st.MsTs, st.Style)
	}
	var pr PutResult
	if err := r.call(&sut.Req{Op: "c08.put", Name: r.cs.Proto, Body: body}, &pr, "put"); err != nil {
		return err
	}
	rejected := pr.Err != "" || pr.Failed != 0 || pr.Success != uint64(len(st.Samples))
	if rejected {
		// Only accepted datapoints are in the property's domain. A rejection is expected for the
		// backslash finding (first sample of such a series); anything else means the generator
		// left the accepted domain: undecided, not a violation.
		if !r.ex.hit[kfBackslash] {
			return pt.Inconclusivef("step %d: put answered success=%d failed=%d err=%q for %d samples", stepNo, pr.Success, pr.Failed, pr.Err, len(st.Samples))
		}
	}
	for _, sm := range st.Samples {
		p := r.cs.Series[sm.S].Pts[sm.P]
		if r.cs.Proto == "prom" && p.Bits == uint64(1)<<63 {
			// The remote-write message is proto3: the standard encoder (prompb.Sample.Marshal, used
			// by promBody like by Prometheus itself) omits a sample value that compares equal to 0,
			// so -0 goes over the wire as an absent field = +0. What was sent is +0.
			p.Bits = 0
		}
		r.acked[sm.S] = append(r.acked[sm.S], p)
	}
	return nil
}

func checkE2E(cs *e2eCase, o *pt.Obs) (err error) {
	if verr := validCase(cs); verr != nil {
		return pt.Inconclusivef("malformed case: %v", verr)
	}
	ex := knownExclusions(cs)
	classifyE2E(cs, ex, o)
	if len(cs.Series) == 0 {
		return nil
	}
	r := &runner{cs: cs, ex: ex, o: o, dataDir: pt.NewDataDir(), acked: make([][]Pt, len(cs.Series))}
	defer pt.CleanupDataDir(r.dataDir)
	r.lo, r.hi = ^uint32(0), 0
	for _, s := range cs.Series {
		for _, p := range s.Pts {
			if p.T < r.lo {
				r.lo = p.T
			}
			if p.T > r.hi {
				r.hi = p.T
			}
		}
	}
	if err := r.start(false); err != nil {
		return err
	}
	defer func() {
		if r.c != nil {
			r.c.Close()
		}
	}()
	for i := range cs.Steps {
		st := &cs.Steps[i]
		stage := fmt.Sprintf("after step %d (%s)", i, st.Op)
		switch st.Op {
		case "put":
			if err := r.put(st, i); err != nil {
				return err
			}
		case "block", "segment":
			if err := r.call(&sut.Req{Op: "c08.rotate", Name: st.Op}, nil, st.Op+" rotation"); err != nil {
				return err
			}
		case "restart":
			if err := r.call(&sut.Req{Op: "c08.flush"}, nil, "shutdown flush"); err != nil {
				return err
			}
			r.c.Close()
			r.c = nil
			if err := r.start(true); err != nil {
				return err
			}
		default:
			return pt.Inconclusivef("unknown step %q", st.Op)
		}
		if err := r.verify(stage); err != nil {
			return err
		}
	}
	return nil
}

func TestC08E2E(t *testing.T) { pt.RunProp(t, "C08", genE2ECase, checkE2E) }
