// Command ovgen writes a `go build -overlay` description that instruments the retention / deletion code of
// the siglens tree at -repo for the C14 check. Nothing under -repo is modified.
//
//   - an export shim for the unexported volume-based pass (retention.VerifDoVolumeBasedDeletion);
//   - `verifcrash.Hit("<Func>:<n>")` in front of every statement (all nesting levels) of the listed functions;
//   - inside the listed functions `os.RemoveAll(x)` becomes `verifcrash.RemoveAll("<Func>", x)`: the same
//     recursive removal done entry by entry with a crash point before every unlink/rmdir, and
//     `os.WriteFile(f, b, m)` becomes `verifcrash.WriteFile("<Func>", f, b, m)` (open+truncate, crash point, write);
//   - the package pkg/verifcrash (overlay-only).
//
// Output (-out DIR): DIR/overlay.json, DIR/points.json, DIR/src/...
package main

import (
	"bytes"
	"encoding/json"
	"flag"
	"fmt"
	"go/ast"
	"go/format"
	"go/parser"
	"go/printer"
	"go/token"
	"os"
	"path/filepath"
	"sort"
	"strconv"
	"strings"
)

type target struct {
	file   string          // path below the repo root
	funcs  map[string]bool // function / method names whose statements get crash points
	append string          // source text appended to the file (export shim)
}

var targets = []target{
	{
		file: "pkg/retention/retention.go",
		funcs: set("DoRetentionBasedDeletion", "DeleteEmptyIndices", "deleteSegmentsFromEmptyPqMetaFiles",
			"DeleteSegmentData", "DeleteMetricsSegmentData"),
		append: `
// VerifDoVolumeBasedDeletion exposes the volume-based pass of internalRetentionCleaner to the C14 check.
func VerifDoVolumeBasedDeletion(ingestNodeDir string, allowedVolumeGB uint64, deletionWarningCounter int) {
	doVolumeBasedDeletion(ingestNodeDir, allowedVolumeGB, deletionWarningCounter)
}
`,
	},
	{
		file:  "pkg/segment/writer/segwriter.go",
		funcs: set("RemoveSegMetas", "RemoveSegBasedirs"),
	},
	{
		file:  "pkg/segment/writer/segmetarw.go",
		funcs: set("removeSegmetas", "removeSegmetasHelper"),
	},
	{
		file:  "pkg/segment/writer/metrics/meta/metricsmeta.go",
		funcs: set("RemoveMetricsSegments", "removeMetricsSegmentsByList"),
	},
	{
		file:  "pkg/virtualtable/virtualtable.go",
		funcs: set("DeleteVirtualTable"),
	},
}

// optionalFuncs may be absent (helpers that a repair of the tree adds or removes).
var optionalFuncs = set("removeSegmetasHelper")

func set(names ...string) map[string]bool {
	m := map[string]bool{}
	for _, n := range names {
		m[n] = true
	}
	return m
}

const crashPkgPath = "github.com/siglens/siglens/pkg/verifcrash"

type point struct {
	Label string `json:"label"`
	File  string `json:"file"`
	Line  int    `json:"line"`
	Stmt  string `json:"stmt"`
}

func main() {
	repo := flag.String("repo", "/repo", "siglens tree")
	out := flag.String("out", "", "output directory")
	srcOverlay := flag.String("srcoverlay", "", "optional overlay.json whose replacements are used as the sources (e.g. a candidate fix)")
	flag.Parse()
	if *out == "" {
		fmt.Fprintln(os.Stderr, "-out required")
		os.Exit(2)
	}
	src := filepath.Join(*out, "src")
	if err := os.MkdirAll(src, 0o755); err != nil {
		fatal(err)
	}
	replace := map[string]string{}
	srcOf := map[string]string{}
	if *srcOverlay != "" {
		b, err := os.ReadFile(*srcOverlay)
		if err != nil {
			fatal(err)
		}
		var ov struct{ Replace map[string]string }
		if err := json.Unmarshal(b, &ov); err != nil {
			fatal(err)
		}
		for k, v := range ov.Replace {
			srcOf[k] = v
			replace[k] = v // files that are not instrumented pass through
		}
	}
	var points []point
	for _, tg := range targets {
		orig := filepath.Join(*repo, tg.file)
		from := orig
		if r, ok := srcOf[orig]; ok {
			from = r
		}
		code, pts, err := instrument(from, tg)
		if err != nil {
			fatal(fmt.Errorf("%s: %v", tg.file, err))
		}
		dst := filepath.Join(src, strings.ReplaceAll(tg.file, "/", "__"))
		if err := os.WriteFile(dst, code, 0o644); err != nil {
			fatal(err)
		}
		replace[orig] = dst
		points = append(points, pts...)
	}
	crashFile := filepath.Join(src, "verifcrash.go")
	if err := os.WriteFile(crashFile, []byte(crashSrc), 0o644); err != nil {
		fatal(err)
	}
	replace[filepath.Join(*repo, "pkg/verifcrash/verifcrash.go")] = crashFile
	ob, _ := json.MarshalIndent(map[string]interface{}{"Replace": replace}, "", " ")
	if err := os.WriteFile(filepath.Join(*out, "overlay.json"), ob, 0o644); err != nil {
		fatal(err)
	}
	pb, _ := json.MarshalIndent(points, "", " ")
	if err := os.WriteFile(filepath.Join(*out, "points.json"), pb, 0o644); err != nil {
		fatal(err)
	}
	fmt.Printf("%d crash points in %d files\n", len(points), len(targets))
}

func fatal(err error) {
	fmt.Fprintln(os.Stderr, "ovgen:", err)
	os.Exit(1)
}

func instrument(path string, tg target) ([]byte, []point, error) {
	fset := token.NewFileSet()
	f, err := parser.ParseFile(fset, path, nil, parser.ParseComments)
	if err != nil {
		return nil, nil, err
	}
	srcBytes, _ := os.ReadFile(path)
	lines := strings.Split(string(srcBytes), "\n")
	var points []point
	found := map[string]bool{}
	for _, d := range f.Decls {
		fd, ok := d.(*ast.FuncDecl)
		if !ok || fd.Body == nil {
			continue
		}
		name := fd.Name.Name
		if !tg.funcs[name] {
			continue
		}
		found[name] = true
		replaceFileOps(fd.Body, name)
		n := 0
		var walk func(list []ast.Stmt) []ast.Stmt
		visitNested := func(s ast.Stmt) {
			ast.Inspect(s, func(nd ast.Node) bool {
				switch x := nd.(type) {
				case *ast.FuncLit:
					x.Body.List = walk(x.Body.List)
					return false
				case *ast.SwitchStmt:
					for _, cl := range x.Body.List {
						if cc, ok := cl.(*ast.CaseClause); ok {
							cc.Body = walk(cc.Body)
						}
					}
					return false
				case *ast.TypeSwitchStmt:
					for _, cl := range x.Body.List {
						if cc, ok := cl.(*ast.CaseClause); ok {
							cc.Body = walk(cc.Body)
						}
					}
					return false
				case *ast.SelectStmt:
					for _, cl := range x.Body.List {
						if cc, ok := cl.(*ast.CommClause); ok {
							cc.Body = walk(cc.Body)
						}
					}
					return false
				case *ast.BlockStmt:
					x.List = walk(x.List)
					return false
				case *ast.CaseClause:
					x.Body = walk(x.Body)
					return false
				case *ast.CommClause:
					x.Body = walk(x.Body)
					return false
				}
				return true
			})
		}
		walk = func(list []ast.Stmt) []ast.Stmt {
			out := make([]ast.Stmt, 0, 2*len(list))
			for _, s := range list {
				label := name + ":" + strconv.Itoa(n)
				n++
				pos := fset.Position(s.Pos())
				txt := ""
				if pos.Line >= 1 && pos.Line <= len(lines) {
					txt = strings.TrimSpace(lines[pos.Line-1])
				}
				points = append(points, point{Label: label, File: tg.file, Line: pos.Line, Stmt: txt})
				out = append(out, hitStmt(label))
				// instrument the nested statement lists of s (not s itself again)
				switch x := s.(type) {
				case *ast.BlockStmt:
					x.List = walk(x.List)
				case *ast.LabeledStmt:
					visitNested(x.Stmt)
				default:
					visitNested(s)
				}
				out = append(out, s)
			}
			return out
		}
		fd.Body.List = walk(fd.Body.List)
	}
	for fn := range tg.funcs {
		if !found[fn] && !optionalFuncs[fn] {
			return nil, nil, fmt.Errorf("function %s not found (tree changed?)", fn)
		}
	}
	addImport(f, crashPkgPath)
	var buf bytes.Buffer
	// comments are dropped: their positions no longer fit the rewritten statement lists
	f.Comments = nil
	for _, d := range f.Decls {
		if fd, ok := d.(*ast.FuncDecl); ok {
			fd.Doc = nil
		}
	}
	if err := printer.Fprint(&buf, token.NewFileSet(), f); err != nil {
		return nil, nil, err
	}
	buf.WriteString(tg.append)
	code, err := format.Source(buf.Bytes())
	if err != nil {
		return nil, nil, fmt.Errorf("instrumented source does not parse: %v", err)
	}
	sort.SliceStable(points, func(i, j int) bool { return points[i].Line < points[j].Line })
	return code, points, nil
}

func hitStmt(label string) ast.Stmt {
	return &ast.ExprStmt{X: &ast.CallExpr{
		Fun:  &ast.SelectorExpr{X: ast.NewIdent("verifcrash"), Sel: ast.NewIdent("Hit")},
		Args: []ast.Expr{&ast.BasicLit{Kind: token.STRING, Value: strconv.Quote(label)}},
	}}
}

// replaceFileOps turns os.RemoveAll(x) / os.WriteFile(f, b, m) inside an instrumented function into their
// stepwise equivalents with crash points.
func replaceFileOps(body *ast.BlockStmt, fn string) {
	ast.Inspect(body, func(n ast.Node) bool {
		call, ok := n.(*ast.CallExpr)
		if !ok {
			return true
		}
		sel, ok := call.Fun.(*ast.SelectorExpr)
		if !ok {
			return true
		}
		id, ok := sel.X.(*ast.Ident)
		if !ok || id.Name != "os" {
			return true
		}
		if (sel.Sel.Name == "RemoveAll" && len(call.Args) == 1) || (sel.Sel.Name == "WriteFile" && len(call.Args) == 3) {
			id.Name = "verifcrash"
			call.Args = append([]ast.Expr{&ast.BasicLit{Kind: token.STRING, Value: strconv.Quote(fn)}}, call.Args...)
		}
		return true
	})
}

func addImport(f *ast.File, path string) {
	spec := &ast.ImportSpec{Path: &ast.BasicLit{Kind: token.STRING, Value: strconv.Quote(path)}}
	for _, d := range f.Decls {
		if gd, ok := d.(*ast.GenDecl); ok && gd.Tok == token.IMPORT {
			gd.Specs = append(gd.Specs, spec)
			if !gd.Lparen.IsValid() {
				gd.Lparen = gd.Pos()
				gd.Rparen = gd.End()
			}
			f.Imports = append(f.Imports, spec)
			return
		}
	}
	gd := &ast.GenDecl{Tok: token.IMPORT, Specs: []ast.Spec{spec}}
	f.Decls = append([]ast.Decl{gd}, f.Decls...)
	f.Imports = append(f.Imports, spec)
}

// crashSrc is the overlay-only package pkg/verifcrash.
const crashSrc = `// Package verifcrash exists only in the overlay build of the C14 check.
package verifcrash

import (
	"os"
	"path/filepath"
	"sort"
	"sync"
	"syscall"
	"time"
)

var (
	mu      sync.Mutex
	counts  = map[string]int64{}
	target  string
	targetN int64
	active  bool
)

// Arm resets the hit counters and sets the crash point: the process kills itself (SIGKILL, nothing is
// flushed or deferred) when label is reached for the n-th time from now on. An empty label only counts.
func Arm(label string, n int64) {
	mu.Lock()
	defer mu.Unlock()
	counts = map[string]int64{}
	target, targetN, active = label, n, true
}

// Hit marks a crash point.
func Hit(label string) {
	mu.Lock()
	if !active {
		mu.Unlock()
		return
	}
	counts[label]++
	n := counts[label]
	die := label == target && n == targetN
	mu.Unlock()
	if die {
		_ = syscall.Kill(os.Getpid(), syscall.SIGKILL)
		for {
			time.Sleep(time.Hour) // never continue past the crash point
		}
	}
}

// Counts returns the number of hits per crash point since Arm.
func Counts() map[string]int64 {
	mu.Lock()
	defer mu.Unlock()
	out := make(map[string]int64, len(counts))
	for k, v := range counts {
		out[k] = v
	}
	return out
}

// RemoveAll is os.RemoveAll done entry by entry (children in name order, then the directory) with a
// crash point "<fn>:rm" before every single removal.
func RemoveAll(fn string, path string) error {
	fi, err := os.Lstat(path)
	if err != nil {
		if os.IsNotExist(err) {
			return nil
		}
		return err
	}
	if fi.IsDir() {
		ents, err := os.ReadDir(path)
		if err != nil {
			return err
		}
		names := make([]string, 0, len(ents))
		for _, e := range ents {
			names = append(names, e.Name())
		}
		sort.Strings(names)
		for _, n := range names {
			if err := RemoveAll(fn, filepath.Join(path, n)); err != nil {
				return err
			}
		}
	}
	Hit(fn + ":rm")
	err = os.Remove(path)
	if err != nil && os.IsNotExist(err) {
		return nil
	}
	return err
}

// WriteFile is os.WriteFile (open with O_TRUNC, write, close) with a crash point "<fn>:wf" between the
// truncating open and the write.
func WriteFile(fn string, name string, data []byte, perm os.FileMode) error {
	f, err := os.OpenFile(name, os.O_WRONLY|os.O_CREATE|os.O_TRUNC, perm)
	if err != nil {
		return err
	}
	Hit(fn + ":wf")
	_, err = f.Write(data)
	if err1 := f.Close(); err1 != nil && err == nil {
		err = err1
	}
	return err
}
`
