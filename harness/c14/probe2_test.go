package c14

import (
	"fmt"
	"os"
	"os/exec"
	"strings"
	"testing"
	"time"

	"verifharness/pt"
	"verifharness/sut"
)

func mbody(name string, tag string, pts [][2]int64) []byte {
	var parts []string
	for _, p := range pts {
		parts = append(parts, fmt.Sprintf(`{"metric":%q,"timestamp":%d,"value":%d,"tags":{"sid":%q}}`, name, p[0], p[1], tag))
	}
	return []byte("[" + strings.Join(parts, ",") + "]")
}

func TestProbe2(t *testing.T) {
	if os.Getenv("C14_PROBE") == "" {
		t.Skip()
	}
	err := pt.WithWorker(sut.Options{Env: map[string]string{"VERIF_LOGLEVEL": "info"}}, func(c *sut.Client) error {
		var paths map[string]string
		if err := c.Call(&sut.Req{Op: "c14.paths"}, &paths); err != nil {
			return err
		}
		now := time.Now().Unix()
		H := int64(24)
		hz := now - H*3600
		q := func(stage, query string) {
			var hr sut.HTTPResult
			err := c.Call(&sut.Req{Op: "c14.mquery", Args: map[string]string{"query": query, "start": fmt.Sprint(hz - 20*3600), "end": fmt.Sprint(now), "step": "60"}}, &hr)
			t.Logf("%s query %s: err=%v status=%d body=%s", stage, query, err, hr.Status, hr.Body)
		}
		show := func(stage string) {
			b, _ := os.ReadFile(paths["mmeta"])
			t.Logf("%s mmeta:\n%s", stage, b)
			out, _ := exec.Command("find", paths["data"], "-type", "f").CombinedOutput()
			t.Logf("%s files:\n%s", stage, out)
			q(stage, "m1")
			q(stage, "m2")
		}
		put := func(b []byte) {
			var pr putResult
			err := c.Call(&sut.Req{Op: "c14.mput", Body: b}, &pr)
			t.Logf("put: %v %+v", err, pr)
		}
		put(mbody("m1", "a", [][2]int64{{hz - 5*3600, 1}, {hz - 5*3600 + 60, 2}}))
		if err := c.Call(&sut.Req{Op: "c14.mrotate"}, nil); err != nil {
			return err
		}
		put(mbody("m1", "a", [][2]int64{{hz + 7200, 5}}))
		put(mbody("m2", "c", [][2]int64{{hz + 7200, 6}}))
		show("before")
		if err := c.Call(&sut.Req{Op: "c14.retention", Ints: map[string]int64{"hours": int64(H)}}, nil); err != nil {
			return err
		}
		show("after")
		if err := c.Call(&sut.Req{Op: "c14.mrotate"}, nil); err != nil {
			return err
		}
		show("after-rotate")
		t.Logf("log:\n%s", c.LogTail(3000))
		return nil
	})
	if err != nil {
		t.Fatal(err)
	}
}
