package c14

// C14 — retention and deletion remove exactly what is expired.
//
// TestC14Time   : generated histories + time-based passes (retention.DoRetentionBasedDeletion), plain worker.
// TestC14Volume : generated histories + volume-based passes (doVolumeBasedDeletion through an export shim),
//                 worker built with the overlay of ./ovgen.
// TestC14Crash  : crash-point enumeration inside the deletion functions (crash_test.go).

import (
	"bytes"
	"encoding/json"
	"fmt"
	"os"
	"sort"
	"testing"

	"verifharness/pt"
	"verifharness/sut"
)

func newEngine(cs *c14Case, o *pt.Obs, binary string) (*engine, func()) {
	dataDir := pt.NewDataDir()
	e := &engine{cs: cs, o: o, opts: sut.Options{DataDir: dataDir, Orgs: cs.Orgs, Binary: binary,
		Env: map[string]string{"VERIF_LOGLEVEL": "info"}}}
	return e, func() {
		e.close()
		pt.CleanupDataDir(dataDir)
	}
}

func validCase(cs *c14Case) bool {
	if cs == nil || cs.H < 1 || len(cs.Orgs) == 0 || len(cs.Rounds) == 0 {
		return false
	}
	for _, r := range cs.Rounds {
		if len(r.Logs) == 0 {
			return false
		}
		for _, l := range r.Logs {
			if len(l.Events) == 0 {
				return false
			}
		}
	}
	return true
}

// classify records the classes of a decided case; mixedIndex = some index holds a victim and a survivor.
func (e *engine) classify() (victims int, mixedIndex bool) {
	o, cs := e.o, e.cs
	type vs struct{ v, s int }
	per := map[pair]*vs{}
	lv, ls, mv, ms := 0, 0, 0, 0
	for _, s := range e.segs {
		if s.metric {
			if s.victim {
				mv++
			} else {
				ms++
			}
			continue
		}
		p := pair{s.org, s.index}
		if per[p] == nil {
			per[p] = &vs{}
		}
		if s.victim {
			per[p].v++
			lv++
		} else {
			per[p].s++
			ls++
			if maxOff(s.log.Events) > 0 {
				old := false
				for _, ev := range s.log.Events {
					if ev.Off < 0 {
						old = true
					}
				}
				if old {
					o.Class("survivor_with_events_older_than_horizon")
				}
			}
		}
	}
	for _, x := range per {
		if x.v > 0 && x.s > 0 {
			mixedIndex = true
		}
		if x.v > 0 && x.s == 0 {
			o.Class("index_with_only_expired_segments")
		}
	}
	if mixedIndex {
		o.Class("index_with_victim_and_survivor")
	}
	o.Class(fmt.Sprintf("tenants_%d", len(cs.Orgs)))
	o.Class(fmt.Sprintf("reps_%d", cs.Pass.Reps))
	if lv > 0 {
		o.Class("log_victims")
	}
	if ls > 0 {
		o.Class("log_survivors")
	}
	if mv > 0 {
		o.Class("metrics_victims")
	}
	if ms > 0 {
		o.Class("metrics_survivors")
	}
	if mv > 0 && ms > 0 {
		o.Class("metrics_victims_and_survivors")
	}
	if lv+mv == 0 {
		o.Class("nothing_expired")
	}
	if ls+ms == 0 {
		o.Class("everything_expired")
	}
	for i := range cs.OpenLogs {
		ol := &cs.OpenLogs[i]
		if ol.Flushed {
			o.Class("open_segment_flushed")
		} else {
			o.Class("open_segment_unflushed")
		}
		if maxOff(ol.Events) < 0 {
			o.Class("open_segment_with_only_old_events")
		}
		if x := per[pair{ol.Org, ol.Index}]; x == nil || x.s == 0 {
			o.Class("open_segment_in_index_without_rotated_survivor")
		}
	}
	if len(cs.OpenMetrics) > 0 {
		o.Class("open_metrics_segment")
	}
	if cs.Pass.Kind == "time" && len(cs.Pass.Orgs) < len(cs.Orgs) {
		o.Class("pass_for_subset_of_tenants")
	}
	if cs.After != "" {
		o.Class("after_" + cs.After)
	}
	if cs.Restart {
		o.Class("restart_after_passes")
	}
	if cs.PreRestart {
		o.Class("restart_before_passes")
	}
	o.Class(fmt.Sprintf("retention_hours_%d", cs.H))
	o.Count("rotated_log_segments", int64(lv+ls))
	o.Count("rotated_metrics_segments", int64(mv+ms))
	o.Count("expired_segments", int64(lv+mv))
	o.Max("max_rotated_segments", int64(len(e.segs)))
	return lv + mv, mixedIndex
}

func (e *engine) baseline() error {
	if err := e.observe("before the pass"); err != nil {
		if inc, ok := err.(*pt.Inconclusive); ok {
			return inc
		}
		return pt.Inconclusivef("precondition (everything sent is searchable and registered before the pass) does not hold: %v", err)
	}
	return e.snapshot()
}

func (e *engine) tail(err error) error {
	if err == nil {
		return nil
	}
	if _, ok := err.(*pt.Inconclusive); ok {
		return err
	}
	if os.Getenv("C14_LOGTAIL") != "" && e.c != nil {
		return fmt.Errorf("%v\n--- server log ---\n%s", err, e.c.LogTail(6000))
	}
	return err
}

func checkTime(cs *c14Case, o *pt.Obs) error {
	if !validCase(cs) || cs.Pass.Kind != "time" || cs.Pass.Reps < 1 {
		return pt.Inconclusivef("malformed case")
	}
	e, cleanup := newEngine(cs, o, "")
	defer cleanup()
	if err := e.start(); err != nil {
		return err
	}
	if err := e.build(); err != nil {
		return err
	}
	if err := e.baseline(); err != nil {
		return err
	}
	e.decideTime(cs.Pass.Orgs)
	victims, mixed := e.classify()
	if victims > 0 && (mixed || cs.Pass.Reps > 1 || cs.Restart) {
		o.NonTrivial()
	}
	for rep := 1; rep <= cs.Pass.Reps; rep++ {
		for _, org := range cs.Pass.Orgs {
			if err := e.c.Call(&sut.Req{Op: "c14.retention", Org: org, Ints: map[string]int64{"hours": int64(cs.H)}}, nil); err != nil {
				return callErr(e.c, fmt.Sprintf("retention pass %d for tenant %d", rep, org), err)
			}
		}
		if err := e.observe(fmt.Sprintf("after time-based pass %d of %d (retention %d h, tenants %v)", rep, cs.Pass.Reps, cs.H, cs.Pass.Orgs)); err != nil {
			return e.tail(err)
		}
	}
	if err := e.after(); err != nil {
		return e.tail(err)
	}
	if cs.Restart {
		if err := e.restart("restart after the passes"); err != nil {
			return err
		}
		if err := e.observe("after the passes and a restart of the server"); err != nil {
			return e.tail(err)
		}
	}
	return nil
}

func TestC14Time(t *testing.T) { pt.RunProp(t, "C14", genTimeCase, checkTime) }

// ---- volume-based pass ------------------------------------------------------------------------------

// inflate rewrites bytesReceivedCount of every rotated segment in segmeta.json / metricmeta.json to the
// simulated size of the case (gigabytes cannot be ingested in the sandbox; the pass reads the sizes from
// these files).
func (e *engine) inflate() error {
	for _, f := range []struct {
		file, key string
		metric    bool
	}{{e.paths["segmeta"], "segmentKey", false}, {e.paths["mmeta"], "mSegmentDir", true}} {
		b, err := os.ReadFile(f.file)
		if err != nil {
			if os.IsNotExist(err) {
				continue
			}
			return pt.Inconclusivef("inflate: %v", err)
		}
		var out bytes.Buffer
		for _, line := range bytes.Split(b, []byte("\n")) {
			if len(bytes.TrimSpace(line)) == 0 {
				continue
			}
			var m map[string]json.RawMessage
			if err := json.Unmarshal(line, &m); err != nil {
				return pt.Inconclusivef("inflate: %v", err)
			}
			var key string
			_ = json.Unmarshal(m[f.key], &key)
			for _, s := range e.segs {
				if s.key != key || s.metric != f.metric {
					continue
				}
				u := 0
				if s.metric {
					u = s.batch.SizeU
				} else {
					u = s.log.SizeU
				}
				s.size = uint64(u) * 100_000_000
				m["bytesReceivedCount"] = json.RawMessage(fmt.Sprint(s.size))
			}
			nb, _ := json.Marshal(m)
			out.Write(nb)
			out.WriteByte('\n')
		}
		tmp := f.file + ".verif"
		if err := os.WriteFile(tmp, out.Bytes(), 0o644); err != nil {
			return pt.Inconclusivef("inflate: %v", err)
		}
		if err := os.Rename(tmp, f.file); err != nil {
			return pt.Inconclusivef("inflate: %v", err)
		}
		_, metas, err := readMetaFile(f.file, f.key)
		if err != nil {
			return pt.Inconclusivef("inflate: %v", err)
		}
		for _, s := range e.segs {
			if s.metric == f.metric {
				s.meta = metas[s.key]
			}
		}
	}
	return nil
}

// decideVolume reads which rotated segments the pass removed from the metadata files and checks that set
// against the statement: expired = a prefix of the segments in the order of their newest events (there is
// a time T with "deleted <=> newest event older than T"), nothing when the volume is within the allowance
// or the pass is still in its warning rounds, and neither less than the oldest-first rule that stops
// before the allowance is reached nor more than the rule that stops right after it.
func (e *engine) decideVolume(stage string, deletes bool) error {
	_, lmeta, err := readMetaFile(e.paths["segmeta"], "segmentKey")
	if err != nil {
		return fmt.Errorf("%s: %v", stage, err)
	}
	_, mmeta, err := readMetaFile(e.paths["mmeta"], "mSegmentDir")
	if err != nil {
		return fmt.Errorf("%s: %v", stage, err)
	}
	var live []*segRec
	for _, s := range e.segs {
		if !s.victim {
			live = append(live, s)
		}
	}
	sort.SliceStable(live, func(a, b int) bool { return live[a].latest < live[b].latest })
	tie := false
	for i := 1; i < len(live); i++ {
		if live[i].latest-live[i-1].latest < 2000 {
			tie = true
		}
	}
	var total int64
	for _, s := range live {
		total += int64(s.size)
	}
	excess := total - int64(e.cs.Pass.Allowed)*1_000_000_000
	lo, hi := 0, 0
	if deletes && excess > 0 {
		var p int64
		hi = len(live)
		for k, s := range live {
			p += int64(s.size)
			if p < excess {
				lo = k + 1
			}
			if p > excess {
				hi = k + 1
				break
			}
		}
	}
	gone := make([]bool, len(live))
	nGone := 0
	desc := func() string {
		var sb bytes.Buffer
		var p int64
		for k, s := range live {
			p += int64(s.size)
			kind := "log"
			if s.metric {
				kind = "metrics"
			}
			st := "kept"
			if gone[k] {
				st = "DELETED"
			}
			fmt.Fprintf(&sb, "\n  #%d %s newest event %+.1f min, size %.1f GB (cumulative %.1f GB): %s", k, kind,
				float64(s.latest-e.hzMs)/60000, float64(s.size)/1e9, float64(p)/1e9, st)
		}
		return fmt.Sprintf("volume %.1f GB, allowed %d GB, excess %.1f GB, warning counter %d; segments oldest first:%s",
			float64(total)/1e9, e.cs.Pass.Allowed, float64(excess)/1e9, e.cs.Pass.Counter, sb.String())
	}
	for k, s := range live {
		metas := lmeta
		if s.metric {
			metas = mmeta
		}
		if _, listed := metas[s.key]; !listed {
			gone[k] = true
			nGone++
		}
	}
	if !tie {
		for k := range live {
			if gone[k] && k >= nGone {
				return fmt.Errorf("%s: the volume-based pass deleted a segment that is newer than a segment it kept; %s", stage, desc())
			}
		}
	} else {
		e.o.Class("volume_newest_events_within_2s")
	}
	if nGone < lo {
		return fmt.Errorf("%s: the volume-based pass deleted %d segments; the oldest-first rule deletes at least %d; %s", stage, nGone, lo, desc())
	}
	if nGone > hi {
		return fmt.Errorf("%s: the volume-based pass deleted %d segments; reaching the allowance needs at most %d; %s", stage, nGone, hi, desc())
	}
	for k, s := range live {
		if gone[k] {
			s.victim = true
		}
	}
	e.o.Count("volume_deleted", int64(nGone))
	if nGone > 0 && nGone < len(live) {
		e.o.Class("volume_partial_deletion")
	}
	if nGone == 0 {
		e.o.Class("volume_no_deletion")
	}
	if nGone == len(live) && nGone > 0 {
		e.o.Class("volume_everything_deleted")
	}
	return nil
}

func checkVolume(cs *c14Case, o *pt.Obs) error {
	if !validCase(cs) || cs.Pass.Kind != "volume" || cs.Pass.Reps < 1 || len(cs.Orgs) != 1 || cs.Orgs[0] != 0 {
		return pt.Inconclusivef("malformed case")
	}
	bin, err := instrumentedWorker()
	if err != nil {
		return pt.Inconclusivef("building the overlay worker (export shim for doVolumeBasedDeletion): %v", err)
	}
	e, cleanup := newEngine(cs, o, bin)
	defer cleanup()
	e.volume = true
	if err := e.start(); err != nil {
		return err
	}
	if err := e.build(); err != nil {
		return err
	}
	if err := e.inflate(); err != nil {
		return err
	}
	if err := e.baseline(); err != nil {
		return err
	}
	deletes := cs.Pass.Counter >= 5
	if !deletes {
		o.Class("volume_warning_round")
	}
	anyGone := false
	for rep := 1; rep <= cs.Pass.Reps; rep++ {
		if err := e.c.Call(&sut.Req{Op: "c14.volume", Ints: map[string]int64{"gb": int64(cs.Pass.Allowed), "counter": int64(cs.Pass.Counter)}}, nil); err != nil {
			return callErr(e.c, fmt.Sprintf("volume pass %d", rep), err)
		}
		stage := fmt.Sprintf("after volume-based pass %d of %d (allowed %d GB)", rep, cs.Pass.Reps, cs.Pass.Allowed)
		if err := e.decideVolume(stage, deletes); err != nil {
			return e.tail(err)
		}
		if err := e.observe(stage); err != nil {
			return e.tail(err)
		}
	}
	victims, mixed := e.classify()
	anyGone = victims > 0
	if anyGone && (mixed || victims < len(e.segs)) {
		o.NonTrivial()
	}
	if err := e.after(); err != nil {
		return e.tail(err)
	}
	if cs.Restart {
		if err := e.restart("restart after the passes"); err != nil {
			return err
		}
		if err := e.observe("after the passes and a restart of the server"); err != nil {
			return e.tail(err)
		}
	}
	return nil
}

func TestC14Volume(t *testing.T) { pt.RunProp(t, "C14", genVolumeCase, checkVolume) }
