package c14

// C14, interruption — the worker is rebuilt with the overlay of ./ovgen, which puts a crash point in front of
// every statement of DoRetentionBasedDeletion, DeleteSegmentData, DeleteMetricsSegmentData, DeleteEmptyIndices,
// deleteSegmentsFromEmptyPqMetaFiles, RemoveSegBasedirs, RemoveSegMetas, removeSegmetas, RemoveMetricsSegments,
// removeMetricsSegmentsByList, DeleteVirtualTable, before every single unlink/rmdir of the os.RemoveAll calls
// inside them and between the truncation and the write of their os.WriteFile calls.
// A case is (history, crash point, hit number k): the history is built, the time-based pass is started and the
// process SIGKILLs itself when it reaches the point for the k-th time; the server is restarted, the pass is
// repeated, and the same oracle as in TestC14Time decides (rotated segments only: what a restart does to
// unrotated data is C07's / C10's subject).

import (
	"crypto/sha256"
	"encoding/json"
	"errors"
	"fmt"
	"os"
	"sort"
	"strings"
	"testing"

	"pgregory.net/rapid"

	"verifharness/pt"
	"verifharness/sut"
)

func genCrashHistory(t *rapid.T, rich bool) *c14Case {
	cs, g := genHistory(t, false)
	cs.Pass = passSpec{Kind: "time", Orgs: append([]int64(nil), cs.Orgs...), Reps: 1}
	// most histories: the server was restarted since the last rotation (nothing is "recently rotated"), so
	// that DeleteEmptyIndices really deletes the indexes whose segments all expired
	cs.PreRestart = rich || rapid.IntRange(0, 2).Draw(t, "preRestart") > 0
	if rich {
		// the first history of a run reaches every instrumented function: expired and surviving log and
		// metrics segments, and an index whose segments all expire
		org := cs.Orgs[0]
		var r1, r2 round
		r1.Logs = append(r1.Logs, g.logSeg(pair{org, "only-old"}, "old"), g.logSeg(pair{org, "app"}, "old"))
		r1.Metrics = append(r1.Metrics, g.mBatch(org, "old"))
		r2.Logs = append(r2.Logs, g.logSeg(pair{org, "app"}, "new"))
		r2.Metrics = append(r2.Metrics, g.mBatch(org, "new"))
		cs.Rounds = append(cs.Rounds, r1, r2)
	}
	return cs
}

// runCrash executes one crash case; with rec != nil nothing is killed and the hit counts of the pass are recorded.
func runCrash(cs *c14Case, o *pt.Obs, rec *map[string]int64) error {
	if !validCase(cs) || cs.Pass.Kind != "time" {
		return pt.Inconclusivef("malformed case")
	}
	bin, err := instrumentedWorker()
	if err != nil {
		return pt.Inconclusivef("building the overlay worker: %v", err)
	}
	e, cleanup := newEngine(cs, o, bin)
	defer cleanup()
	if err := e.start(); err != nil {
		return err
	}
	if err := e.build(); err != nil {
		return err
	}
	if err := e.baseline(); err != nil {
		return err
	}
	e.decideTime(cs.Pass.Orgs)
	victims, _ := e.classify()
	if rec == nil && e.hasMetrics() {
		// see metaWalTick: the copy of the meta-entry log on disk must not predate the last metrics rotation
		e.metaWalTick()
	}
	if err := e.c.Call(&sut.Req{Op: "c14.arm", Name: cs.CrashLabel, Ints: map[string]int64{"k": cs.CrashK}}, nil); err != nil {
		return callErr(e.c, "arming the crash point", err)
	}
	pass := func(what string) (died bool, err error) {
		for _, org := range cs.Pass.Orgs {
			err := e.c.Call(&sut.Req{Op: "c14.retention", Org: org, Ints: map[string]int64{"hours": int64(cs.H)}}, nil)
			if errors.Is(err, sut.ErrWorkerDied) {
				return true, nil
			}
			if err != nil {
				return false, callErr(e.c, what, err)
			}
		}
		return false, nil
	}
	died, err := pass("retention pass with an armed crash point")
	if err != nil {
		return err
	}
	if rec != nil {
		if died {
			return fmt.Errorf("server process died during the pass without a crash point being armed: %s", pt.CrashDetail(e.c))
		}
		if err := e.c.Call(&sut.Req{Op: "c14.hits"}, rec); err != nil {
			return callErr(e.c, "reading hit counts", err)
		}
		return e.observe("after the uninterrupted pass")
	}
	fn := strings.SplitN(cs.CrashLabel, ":", 2)[0]
	switch {
	case cs.CrashLabel == "":
		if died {
			return fmt.Errorf("server process died during the pass without a crash point being armed: %s", pt.CrashDetail(e.c))
		}
	case died:
		o.Class("crashed_in_" + fn)
		if victims > 0 {
			o.NonTrivial()
		}
	default:
		o.Class("crash_point_not_reached")
	}
	if err := e.restart("restart after the interrupted pass"); err != nil {
		if _, ok := err.(*pt.Inconclusive); ok && strings.Contains(err.Error(), "did not become ready") {
			return fmt.Errorf("after the pass was interrupted at %s (hit %d) the server does not start any more: %v", cs.CrashLabel, cs.CrashK, err)
		}
		return err
	}
	stage := fmt.Sprintf("pass interrupted at %s (hit %d), server restarted, pass repeated", cs.CrashLabel, cs.CrashK)
	died, err = pass("repeated retention pass")
	if err != nil {
		return err
	}
	if died {
		return fmt.Errorf("%s: the server process died during the repeated pass: %s", stage, pt.CrashDetail(e.c))
	}
	if err := e.observe(stage); err != nil {
		return e.tail(err)
	}
	// and once more: the repaired state is stable
	died, err = pass("second repeated retention pass")
	if err != nil {
		return err
	}
	if died {
		return fmt.Errorf("%s: the server process died during the second repeated pass: %s", stage, pt.CrashDetail(e.c))
	}
	return e.tail(e.observe(stage + " twice"))
}

func checkCrash(cs *c14Case, o *pt.Obs) error { return runCrash(cs, o, nil) }

type crashPoint struct {
	label string
	kind  string // which hit: first | mid | last | k<n>
	k     int64
}

// selectPoints lists the (point, hit) pairs of one history. Which hits of a point are taken is named by a
// kind (first / middle / last hit, thorough: hits 2..12 too); the hit counts come from this process' record
// run and may differ a little between runs (map iteration order inside the pass), the (label, kind) pairs
// do not: they are what is dealt to the shards.
func selectPoints(hits map[string]int64) []crashPoint {
	labels := make([]string, 0, len(hits))
	for l := range hits {
		labels = append(labels, l)
	}
	sort.Strings(labels)
	var out []crashPoint
	only := os.Getenv("C14_CRASH_ONLY") // development: restrict the enumeration to labels with this prefix
	for _, l := range labels {
		c := hits[l]
		if c < 1 || !strings.HasPrefix(l, only) {
			continue
		}
		out = append(out, crashPoint{l, "first", 1})
		if c > 1 {
			out = append(out, crashPoint{l, "last", c})
		}
		if c > 2 {
			out = append(out, crashPoint{l, "mid", (1 + c) / 2})
		}
		if pt.Thorough() {
			for k := int64(2); k < c && k <= 12; k++ {
				if k != (1+c)/2 {
					out = append(out, crashPoint{l, fmt.Sprintf("k%d", k), k})
				}
			}
		}
	}
	return out
}

func TestC14Crash(t *testing.T) {
	shard, shards := pt.Shard()
	budget := pt.Cases(12)
	seed := pt.SeedFromEnv()
	var (
		hist    *c14Case
		points  []crashPoint
		pi      int
		histNo  int
		emitted int
	)
	next := func(i int) (*c14Case, bool) {
		for {
			if emitted >= budget {
				return nil, false
			}
			if hist != nil && pi < len(points) {
				p := points[pi]
				pi++
				cs := *hist
				cs.CrashLabel, cs.CrashK = p.label, p.k
				emitted++
				t.Logf("case %d: history %d, crash at %s hit %d", emitted, histNo, p.label, p.k)
				return &cs, true
			}
			if histNo >= 400 {
				return nil, false
			}
			// next history: the same for every shard; its crash points are dealt round-robin
			rich := histNo == 0
			hist = rapid.Custom(func(t *rapid.T) *c14Case { return genCrashHistory(t, rich) }).Example(int(seed)*100003 + histNo + 1)
			histNo++
			hits := map[string]int64{}
			if err := runCrash(hist, &pt.Obs{}, &hits); err != nil {
				t.Logf("history %d: record run: %v", histNo, err)
				failed := hist
				hist = nil
				var inc *pt.Inconclusive
				if !errors.As(err, &inc) {
					// the history fails without any crash point: hand it to the runner as a case of its own
					emitted++
					return failed, true
				}
				continue
			}
			all := selectPoints(hits)
			// a (label, kind) pair belongs to the shard its hash names, and is run in hash order
			key := func(p crashPoint) string {
				h := sha256.Sum256([]byte(fmt.Sprintf("%d/%d/%s/%s", seed, histNo, p.label, p.kind)))
				return string(h[:8])
			}
			sort.SliceStable(all, func(a, b int) bool { return key(all[a]) < key(all[b]) })
			points = points[:0]
			for _, p := range all {
				k := key(p)
				owner := (int(k[0])<<8 | int(k[1])) % shards
				if owner == shard {
					points = append(points, p)
				}
			}
			pi = 0
			if shard == 0 {
				b, _ := json.Marshal(map[string]int{"history": histNo, "points": len(all), "labels": len(hits)})
				t.Logf("crash points: %s", b)
			}
		}
	}
	pt.RunCases(t, "C14", next, checkCrash)
}
