package c14

// The overlay worker: this test package built with the overlay that ./ovgen generates from the current
// /repo tree (export shim for the volume-based pass, crash points in the deletion functions).

import (
	"fmt"
	"os"
	"os/exec"
	"path/filepath"
	"strings"
	"sync"
	"syscall"
)

var (
	instrOnce sync.Once
	instrBin  string
	instrErr  error
)

func harnessDir() string {
	if d := os.Getenv("VERIF_HARNESS"); d != "" {
		return d
	}
	return "/verif/harness"
}

func tailStr(s string, n int) string {
	if len(s) > n {
		return s[len(s)-n:]
	}
	return s
}

// instrumentedWorker builds (once per driver invocation, shared by the shards through a lock file) the
// overlay worker and returns its path.
func instrumentedWorker() (string, error) {
	instrOnce.Do(func() {
		if b := os.Getenv("C14_INSTR_BINARY"); b != "" {
			instrBin = b
			return
		}
		root := "/verif/.work/c14-ov-dev"
		if w := os.Getenv("VERIF_WORK"); w != "" {
			root = filepath.Join(filepath.Dir(w), "c14-ov")
		}
		if err := os.MkdirAll(root, 0o755); err != nil {
			instrErr = err
			return
		}
		lock, err := os.OpenFile(filepath.Join(root, "lock"), os.O_CREATE|os.O_RDWR, 0o644)
		if err != nil {
			instrErr = err
			return
		}
		defer lock.Close()
		if err := syscall.Flock(int(lock.Fd()), syscall.LOCK_EX); err != nil {
			instrErr = err
			return
		}
		defer syscall.Flock(int(lock.Fd()), syscall.LOCK_UN)
		bin := filepath.Join(root, "worker.test")
		if _, err := os.Stat(filepath.Join(root, "ok")); err == nil {
			instrBin = bin
			return
		}
		repo := os.Getenv("VERIF_REPO")
		if repo == "" {
			repo = "/repo"
		}
		goflags := "-mod=mod"
		if cur := os.Getenv("GOFLAGS"); strings.Contains(cur, "-modfile") {
			goflags = cur // the driver checks another checkout (VERIF_REPO) through an alternative go.mod
		}
		env := append(os.Environ(), "GOFLAGS="+goflags, "GOPROXY=off", "GOSUMDB=off", "GOTOOLCHAIN=local")
		run := func(name string, args ...string) error {
			cmd := exec.Command(name, args...)
			cmd.Dir = harnessDir()
			cmd.Env = env
			out, err := cmd.CombinedOutput()
			if err != nil {
				return fmt.Errorf("%s %s: %v\n%s", name, strings.Join(args, " "), err, tailStr(string(out), 3000))
			}
			return nil
		}
		ovgen := filepath.Join(root, "ovgen")
		if err := run("go", "build", "-o", ovgen, "./c14/ovgen"); err != nil {
			instrErr = err
			return
		}
		genArgs := []string{"-repo", repo, "-out", filepath.Join(root, "gen")}
		if so := os.Getenv("C14_SRC_OVERLAY"); so != "" {
			genArgs = append(genArgs, "-srcoverlay", so) // development: instrument a candidate fix / a mutant
		}
		if err := run(ovgen, genArgs...); err != nil {
			instrErr = err
			return
		}
		if err := run("go", "test", "-c", "-vet=off", "-tags", "verif,c14overlay", "-overlay", filepath.Join(root, "gen", "overlay.json"),
			"-o", bin, "./c14"); err != nil {
			instrErr = err
			return
		}
		_ = os.WriteFile(filepath.Join(root, "ok"), []byte("ok"), 0o644)
		instrBin = bin
	})
	return instrBin, instrErr
}
