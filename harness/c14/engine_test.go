package c14

// C14 — execution engine and oracle shared by the time, volume and crash-point tests.

import (
	"bytes"
	"crypto/sha256"
	"encoding/hex"
	"encoding/json"
	"errors"
	"fmt"
	"os"
	"path"
	"path/filepath"
	"reflect"
	"sort"
	"strconv"
	"strings"
	"time"

	"verifharness/lq"
	"verifharness/pt"
	"verifharness/sut"
)

// segRec is one rotated segment (log or metrics) as the harness saw it registered before the pass.
type segRec struct {
	metric bool
	org    int64
	index  string
	round  int
	key    string                 // segmentKey / mSegmentDir
	dir    string                 // directory that holds the segment's files
	meta   map[string]interface{} // its line in segmeta.json / metricmeta.json (numbers as json.Number)
	latest int64                  // newest event, ms (from the case, not from the metadata)
	size   uint64                 // bytesReceivedCount the pass will see
	log    *logSeg
	batch  *mBatch
	hash   map[string]string // file name -> content hash, taken before the first pass
	victim bool              // expected to be deleted
}

type engine struct {
	cs          *c14Case
	o           *pt.Obs
	opts        sut.Options
	c           *sut.Client
	paths       map[string]string
	nowMs       int64
	hzMs        int64
	hzStep      int64 // horizon in seconds rounded down to mStepSec
	segs        []*segRec
	knownL      map[string]bool // segment keys seen in segmeta.json so far
	knownM      map[string]bool
	lenient     bool           // after a restart / crash: what happened to unrotated data is not C14's business
	restarted   bool           // the server was restarted at least once: metricmeta.json may hold replayed entries
	extra       []evt          // events added to open segments after the passes (After phase)
	extraAt     map[pair][]evt // ... per (org,index)
	rotatedOpen bool           // After == rotate done: open segments now have segmeta entries
	flushedAll  bool           // a flush was done after the open segments were written
	lastMRot    time.Time      // when the last metrics rotation returned
	volume      bool           // volume-based pass: victims are read from the metadata files (decideVolume)
}

func (e *engine) ts(off int64) int64 { return e.hzMs + off }
func (e *engine) mts(k int64) int64  { return e.hzStep + k*mStepSec }

func callErr(c *sut.Client, what string, err error) error {
	if err == nil {
		return nil
	}
	if errors.Is(err, sut.ErrWorkerDied) {
		return fmt.Errorf("server process died during %s: %s", what, pt.CrashDetail(c))
	}
	if errors.Is(err, sut.ErrTimeout) {
		return pt.Inconclusivef("%s did not return within the per-command time budget", what)
	}
	return pt.Inconclusivef("%s: %v", what, err)
}

func (e *engine) start() error {
	c, err := sut.Start(e.opts)
	if err != nil {
		return pt.Inconclusivef("worker start: %v", err)
	}
	e.c = c
	if e.paths == nil {
		if err := c.Call(&sut.Req{Op: "c14.paths"}, &e.paths); err != nil {
			return callErr(c, "c14.paths", err)
		}
	}
	return nil
}

func (e *engine) close() {
	if e.c != nil {
		e.c.Close()
		e.c = nil
	}
}

func logBody(index string, evs []evt, ts func(int64) int64) []byte {
	var sb strings.Builder
	for _, ev := range evs {
		fmt.Fprintf(&sb, "{\"index\":{\"_index\":%q}}\n{\"_vid\":%d,\"timestamp\":%d,\"msg\":\"event %d\",\"k\":\"v%d\"}\n",
			index, ev.Vid, ts(ev.Off), ev.Vid, ev.Vid%3)
	}
	return []byte(sb.String())
}

func (e *engine) bulk(org int64, index string, evs []evt) error {
	br, err := e.c.Bulk(org, logBody(index, evs, e.ts))
	if err != nil {
		return callErr(e.c, "bulk", err)
	}
	if br.Err != "" || strings.Contains(string(br.Response), `"errors":true`) {
		return pt.Inconclusivef("bulk to %s/%d not accepted: %s %s", index, org, br.Err, br.Response)
	}
	return nil
}

func (e *engine) mput(b *mBatch) error {
	var parts []string
	for _, s := range b.Series {
		for _, p := range s.Pts {
			parts = append(parts, fmt.Sprintf(`{"metric":%q,"timestamp":%d,"value":%d,"tags":{"sid":%q}}`, s.Name, e.mts(p.K), p.V, s.Sid))
		}
	}
	var pr putResult
	if err := e.c.Call(&sut.Req{Op: "c14.mput", Org: b.Org, Body: []byte("[" + strings.Join(parts, ",") + "]")}, &pr); err != nil {
		return callErr(e.c, "metrics put", err)
	}
	if pr.Err != "" || pr.Failed != 0 || int(pr.Success) != len(parts) {
		return pt.Inconclusivef("metrics put not fully accepted: %+v", pr)
	}
	return nil
}

// readMetaFile returns the JSON lines of a metadata file keyed by keyField (in file order).
func readMetaFile(fname, keyField string) ([]string, map[string]map[string]interface{}, error) {
	return readMetaFileDup(fname, keyField, false)
}

// dupOK: a key listed more than once is accepted (the last line counts). Only used after a restart, where
// the metrics meta-entry log is replayed into metricmeta.json (recovery of unrotated metrics: C10's subject).
func readMetaFileDup(fname, keyField string, dupOK bool) ([]string, map[string]map[string]interface{}, error) {
	b, err := os.ReadFile(fname)
	if err != nil {
		if os.IsNotExist(err) {
			return nil, map[string]map[string]interface{}{}, nil
		}
		return nil, nil, err
	}
	out := map[string]map[string]interface{}{}
	var order []string
	for _, line := range bytes.Split(b, []byte("\n")) {
		if len(bytes.TrimSpace(line)) == 0 {
			continue
		}
		dec := json.NewDecoder(bytes.NewReader(line))
		dec.UseNumber()
		var m map[string]interface{}
		if err := dec.Decode(&m); err != nil {
			return nil, nil, fmt.Errorf("%s: unparsable line %q: %v", fname, line, err)
		}
		k, _ := m[keyField].(string)
		if k == "" {
			return nil, nil, fmt.Errorf("%s: line without %s: %q", fname, keyField, line)
		}
		if _, dup := out[k]; dup {
			if !dupOK {
				return nil, nil, fmt.Errorf("%s: %s listed twice", fname, k)
			}
		} else {
			order = append(order, k)
		}
		out[k] = m
	}
	return order, out, nil
}

func numField(m map[string]interface{}, f string) int64 {
	if n, ok := m[f].(json.Number); ok {
		v, _ := n.Int64()
		return v
	}
	return 0
}

func maxOff(evs []evt) int64 {
	mx := evs[0].Off
	for _, ev := range evs {
		if ev.Off > mx {
			mx = ev.Off
		}
	}
	return mx
}

// registerRound finds the metadata entries that the rotation of round ri created.
func (e *engine) registerRound(ri int, r *round) error {
	order, metas, err := readMetaFile(e.paths["segmeta"], "segmentKey")
	if err != nil {
		return pt.Inconclusivef("reading segmeta.json after round %d: %v", ri, err)
	}
	want := map[pair]*logSeg{}
	for i := range r.Logs {
		want[pair{r.Logs[i].Org, r.Logs[i].Index}] = &r.Logs[i]
	}
	for _, k := range order {
		if e.knownL[k] {
			continue
		}
		e.knownL[k] = true
		m := metas[k]
		p := pair{numField(m, "orgid"), fmt.Sprint(m["virtualTableName"])}
		ls := want[p]
		if ls == nil {
			return pt.Inconclusivef("round %d: rotation registered an unexpected segment %s for %v", ri, k, p)
		}
		delete(want, p)
		dir, _ := m["segbaseDir"].(string)
		if dir == "" {
			return pt.Inconclusivef("round %d: segment %s has no segbaseDir", ri, k)
		}
		e.segs = append(e.segs, &segRec{org: p.org, index: p.index, round: ri, key: k, dir: dir, meta: m, log: ls,
			latest: e.ts(maxOff(ls.Events)), size: uint64(numField(m, "bytesReceivedCount"))})
	}
	if len(want) > 0 {
		return pt.Inconclusivef("round %d: %d of %d batches did not become a registered rotated segment", ri, len(want), len(r.Logs))
	}
	if len(r.Metrics) == 0 {
		return nil
	}
	order, metas, err = readMetaFile(e.paths["mmeta"], "mSegmentDir")
	if err != nil {
		return pt.Inconclusivef("reading metricmeta.json after round %d: %v", ri, err)
	}
	byOrg := map[int64]*mBatch{}
	got := map[int64]int{}
	for i := range r.Metrics {
		byOrg[r.Metrics[i].Org] = &r.Metrics[i]
	}
	for _, k := range order {
		if e.knownM[k] {
			continue
		}
		e.knownM[k] = true
		m := metas[k]
		org := numField(m, "orgid")
		b := byOrg[org]
		if b == nil {
			return pt.Inconclusivef("round %d: metrics rotation registered an unexpected segment %s (tenant %d)", ri, k, org)
		}
		got[org]++
		// newest datapoint of the segment: reported by the segment itself (which series share a shard is
		// internal); it must be one of the batch's datapoint times
		latestSec := numField(m, "latestEpochSec")
		okTime := false
		for _, s := range b.Series {
			for _, p := range s.Pts {
				if e.mts(p.K) == latestSec {
					okTime = true
				}
			}
		}
		if !okTime {
			return pt.Inconclusivef("round %d: metrics segment %s reports newest datapoint %d, not a time of its batch", ri, k, latestSec)
		}
		e.segs = append(e.segs, &segRec{metric: true, org: org, round: ri, key: k, dir: path.Dir(k), meta: m, batch: b,
			latest: latestSec * 1000, size: uint64(numField(m, "bytesReceivedCount"))})
	}
	for org := range byOrg {
		if got[org] == 0 {
			return pt.Inconclusivef("round %d: the metrics batch of tenant %d did not become a rotated metrics segment", ri, org)
		}
	}
	return nil
}

// build ingests the history: rounds (rotated), then the open segments.
func (e *engine) build() error {
	e.nowMs = time.Now().UnixMilli()
	e.hzMs = e.nowMs - int64(e.cs.H)*3600_000
	e.hzStep = (e.hzMs / 1000) / mStepSec * mStepSec
	e.knownL, e.knownM = map[string]bool{}, map[string]bool{}
	e.extraAt = map[pair][]evt{}
	for ri := range e.cs.Rounds {
		r := &e.cs.Rounds[ri]
		for i := range r.Logs {
			if err := e.bulk(r.Logs[i].Org, r.Logs[i].Index, r.Logs[i].Events); err != nil {
				return err
			}
		}
		if err := e.c.Flush(); err != nil {
			return callErr(e.c, "flush", err)
		}
		if err := e.c.Rotate(); err != nil {
			return callErr(e.c, "rotate", err)
		}
		if len(r.Metrics) > 0 {
			for i := range r.Metrics {
				if err := e.mput(&r.Metrics[i]); err != nil {
					return err
				}
			}
			if err := e.c.Call(&sut.Req{Op: "c14.mrotate"}, nil); err != nil {
				return callErr(e.c, "metrics rotation", err)
			}
			e.lastMRot = time.Now()
		}
		if err := e.registerRound(ri, r); err != nil {
			return err
		}
	}
	if e.cs.PreRestart {
		// The server is restarted between the last rotation and the pass: a server that has been up for the
		// hours it takes a segment to expire no longer remembers it as "recently rotated" (60 s list).
		if err := e.bounce("restart before the open segments are written"); err != nil {
			return err
		}
	}
	anyFlush := false
	for i := range e.cs.OpenLogs {
		ol := &e.cs.OpenLogs[i]
		if !ol.Flushed {
			continue
		}
		if err := e.bulk(ol.Org, ol.Index, ol.Events); err != nil {
			return err
		}
		anyFlush = true
	}
	if anyFlush {
		if err := e.c.Flush(); err != nil {
			return callErr(e.c, "flush", err)
		}
	}
	for i := range e.cs.OpenLogs {
		ol := &e.cs.OpenLogs[i]
		if ol.Flushed {
			continue
		}
		if err := e.bulk(ol.Org, ol.Index, ol.Events); err != nil {
			return err
		}
	}
	for i := range e.cs.OpenMetrics {
		if err := e.mput(&e.cs.OpenMetrics[i]); err != nil {
			return err
		}
	}
	return nil
}

func hashDir(dir string) (map[string]string, error) {
	out := map[string]string{}
	err := filepath.Walk(dir, func(p string, info os.FileInfo, err error) error {
		if err != nil {
			return err
		}
		if info.IsDir() {
			return nil
		}
		b, err := os.ReadFile(p)
		if err != nil {
			return err
		}
		h := sha256.Sum256(b)
		rel, _ := filepath.Rel(dir, p)
		out[rel] = hex.EncodeToString(h[:8])
		return nil
	})
	return out, err
}

func (e *engine) snapshot() error {
	for _, s := range e.segs {
		h, err := hashDir(s.dir)
		if err != nil {
			return pt.Inconclusivef("hashing %s before the pass: %v", s.dir, err)
		}
		if len(h) == 0 {
			return pt.Inconclusivef("segment directory %s is empty before the pass", s.dir)
		}
		s.hash = h
	}
	return nil
}

// ---- expectations ---------------------------------------------------------------------------------

// batchSides: does every series of the batch have a datapoint newer than the horizon / none of them?
func batchSides(b *mBatch) (allOld, allHaveNew bool) {
	allOld, allHaveNew = true, true
	for _, s := range b.Series {
		hasNew := false
		for _, p := range s.Pts {
			if p.K > 0 {
				hasNew = true
			}
		}
		if hasNew {
			allOld = false
		} else {
			allHaveNew = false
		}
	}
	return
}

// decideTime marks the victims of a time-based pass run for the given tenants.
func (e *engine) decideTime(orgs []int64) {
	in := map[int64]bool{}
	for _, o := range orgs {
		in[o] = true
	}
	for _, s := range e.segs {
		if !in[s.org] {
			continue
		}
		if s.metric {
			allOld, allHaveNew := batchSides(s.batch)
			switch {
			case allOld:
				s.victim = true
			case allHaveNew:
			default:
				// which series share a segment is internal: decided by the segment's own newest datapoint,
				// which is more than 10 minutes from the horizon on either side
				s.victim = s.latest <= e.hzMs
			}
			continue
		}
		if maxOff(s.log.Events) < 0 {
			s.victim = true
		}
	}
}

type mKey struct {
	org  int64
	name string
	sid  string
}

// expectedLogs: per (org,index) the events that must be returned and those that may be returned.
func (e *engine) expectedLogs() (must, may map[pair]map[int64]bool) {
	must, may = map[pair]map[int64]bool{}, map[pair]map[int64]bool{}
	touch := func(p pair) {
		if must[p] == nil {
			must[p], may[p] = map[int64]bool{}, map[int64]bool{}
		}
	}
	for _, s := range e.segs {
		if s.metric {
			continue
		}
		p := pair{s.org, s.index}
		touch(p)
		if !s.victim {
			for _, ev := range s.log.Events {
				must[p][ev.Vid] = true
			}
		}
	}
	for i := range e.cs.OpenLogs {
		ol := &e.cs.OpenLogs[i]
		p := pair{ol.Org, ol.Index}
		touch(p)
		for _, ev := range ol.Events {
			// events that were never flushed are not searchable yet (and need not be)
			if e.lenient || (!ol.Flushed && !e.flushedAll) {
				may[p][ev.Vid] = true
			} else {
				must[p][ev.Vid] = true
			}
		}
	}
	for p, evs := range e.extraAt {
		touch(p)
		for _, ev := range evs {
			if e.lenient {
				may[p][ev.Vid] = true
			} else {
				must[p][ev.Vid] = true
			}
		}
	}
	return
}

// ---- observation -----------------------------------------------------------------------------------

func (e *engine) searchVids(org int64, index string) (lq.VidSet, bool, error) {
	sr, err := lq.Search(e.c, sut.Query{Org: org, Index: index, Text: "*", Start: 1, End: uint64(e.nowMs + 2*86400_000), Size: 2000})
	if err != nil {
		var rj *lq.Rejected
		if errors.As(err, &rj) {
			return nil, true, nil
		}
		return nil, false, err
	}
	vs, _, err := lq.Vids("*", sr.Records)
	return vs, false, err
}

func (e *engine) describeVid(v int64) string {
	for _, s := range e.segs {
		if s.metric {
			continue
		}
		for _, ev := range s.log.Events {
			if ev.Vid == v {
				state := "survivor"
				if s.victim {
					state = "EXPIRED"
				}
				return fmt.Sprintf("_vid=%d (rotated segment %s of index %s tenant %d, %s, event %+.1f min from the horizon, segment's newest event %+.1f min)",
					v, path.Base(path.Dir(s.key)), s.index, s.org, state, float64(ev.Off)/60000, float64(maxOff(s.log.Events))/60000)
			}
		}
	}
	for i := range e.cs.OpenLogs {
		for _, ev := range e.cs.OpenLogs[i].Events {
			if ev.Vid == v {
				return fmt.Sprintf("_vid=%d (open segment of index %s tenant %d, flushed=%v, event %+.1f min from the horizon)",
					v, e.cs.OpenLogs[i].Index, e.cs.OpenLogs[i].Org, e.cs.OpenLogs[i].Flushed, float64(ev.Off)/60000)
			}
		}
	}
	for p, evs := range e.extraAt {
		for _, ev := range evs {
			if ev.Vid == v {
				return fmt.Sprintf("_vid=%d (sent to index %s tenant %d after the pass)", v, p.index, p.org)
			}
		}
	}
	return fmt.Sprintf("_vid=%d (never sent)", v)
}

func (e *engine) checkLogs(stage string) error {
	must, may := e.expectedLogs()
	perOrgMust, perOrgMay := map[int64]map[int64]bool{}, map[int64]map[int64]bool{}
	pairs := make([]pair, 0, len(must))
	for p := range must {
		pairs = append(pairs, p)
	}
	sort.Slice(pairs, func(a, b int) bool {
		if pairs[a].org != pairs[b].org {
			return pairs[a].org < pairs[b].org
		}
		return pairs[a].index < pairs[b].index
	})
	cmp := func(what string, got lq.VidSet, rejected bool, mu, ma map[int64]bool) error {
		if rejected {
			if len(mu) == 0 {
				return nil // nothing must be there: an index that no longer exists may be refused
			}
			got = lq.VidSet{}
		}
		for v := range mu {
			if !got[v] {
				return fmt.Errorf("%s: %s: surviving event missing from match-all: %s; returned %v", stage, what, e.describeVid(v), got.Sorted())
			}
		}
		for _, v := range got.Sorted() {
			if !mu[v] && !ma[v] {
				return fmt.Errorf("%s: %s: match-all returns %s; returned %v", stage, what, e.describeVid(v), got.Sorted())
			}
		}
		return nil
	}
	for _, p := range pairs {
		got, rej, err := e.searchVids(p.org, p.index)
		if err != nil {
			return fmt.Errorf("%s: search index %s tenant %d: %v", stage, p.index, p.org, err)
		}
		if err := cmp(fmt.Sprintf("index %s tenant %d", p.index, p.org), got, rej, must[p], may[p]); err != nil {
			return err
		}
		if perOrgMust[p.org] == nil {
			perOrgMust[p.org], perOrgMay[p.org] = map[int64]bool{}, map[int64]bool{}
		}
		for v := range must[p] {
			perOrgMust[p.org][v] = true
		}
		for v := range may[p] {
			perOrgMay[p.org][v] = true
		}
	}
	for _, org := range e.cs.Orgs {
		if perOrgMust[org] == nil {
			continue
		}
		got, rej, err := e.searchVids(org, "*")
		if err != nil {
			return fmt.Errorf("%s: search index * tenant %d: %v", stage, org, err)
		}
		if err := cmp(fmt.Sprintf("index * tenant %d", org), got, rej, perOrgMust[org], perOrgMay[org]); err != nil {
			return err
		}
	}
	return nil
}

type promResp struct {
	Status string `json:"status"`
	Data   struct {
		Result []struct {
			Metric map[string]string `json:"metric"`
			Values [][]interface{}   `json:"values"`
		} `json:"result"`
	} `json:"data"`
}

func (e *engine) checkMetrics(stage string) error {
	type want struct{ must, may, never map[int64]int64 } // time (s) -> value
	exp := map[mKey]*want{}
	get := func(k mKey) *want {
		if exp[k] == nil {
			exp[k] = &want{map[int64]int64{}, map[int64]int64{}, map[int64]int64{}}
		}
		return exp[k]
	}
	// batches: decided per batch from the segments registered for it
	type bstate struct{ victims, survivors, maybes int }
	states := map[*mBatch]*bstate{}
	for _, s := range e.segs {
		if !s.metric {
			continue
		}
		st := states[s.batch]
		if st == nil {
			st = &bstate{}
			states[s.batch] = st
		}
		switch {
		case s.victim:
			st.victims++
		default:
			st.survivors++
		}
	}
	for b, st := range states {
		for _, s := range b.Series {
			w := get(mKey{b.Org, s.Name, s.Sid})
			seriesNew := false
			for _, p := range s.Pts {
				if p.K > 0 {
					seriesNew = true
				}
			}
			for _, p := range s.Pts {
				switch {
				case st.victims == 0: // no segment of the batch is expired
					w.must[e.mts(p.K)] = p.V
				case st.survivors == 0: // every segment of the batch is expired
					w.never[e.mts(p.K)] = p.V
				case seriesNew && !e.volume: // time-based: this series' segment holds a datapoint newer than the horizon
					w.must[e.mts(p.K)] = p.V
				default:
					// some segments of the batch are expired, some not: which series share a segment is internal
					w.may[e.mts(p.K)] = p.V
				}
			}
		}
	}
	for i := range e.cs.OpenMetrics {
		b := &e.cs.OpenMetrics[i]
		for _, s := range b.Series {
			w := get(mKey{b.Org, s.Name, s.Sid})
			for _, p := range s.Pts {
				if e.lenient {
					w.may[e.mts(p.K)] = p.V
				} else {
					w.must[e.mts(p.K)] = p.V
				}
			}
		}
	}
	// one range query per (tenant, metric name)
	type nk struct {
		org  int64
		name string
	}
	names := map[nk]bool{}
	for k := range exp {
		names[nk{k.org, k.name}] = true
	}
	nks := make([]nk, 0, len(names))
	for k := range names {
		nks = append(nks, k)
	}
	sort.Slice(nks, func(a, b int) bool {
		if nks[a].org != nks[b].org {
			return nks[a].org < nks[b].org
		}
		return nks[a].name < nks[b].name
	})
	start := e.hzStep - (maxAgeMStp+2)*mStepSec
	end := e.hzStep + (int64(e.cs.H)*6+2)*mStepSec
	if end > start+10000*mStepSec {
		end = start + 10000*mStepSec
	}
	for _, k := range nks {
		var hr sut.HTTPResult
		err := e.c.Call(&sut.Req{Op: "c14.mquery", Org: k.org, Args: map[string]string{"query": k.name,
			"start": strconv.FormatInt(start, 10), "end": strconv.FormatInt(end, 10), "step": strconv.FormatInt(mStepSec, 10)}}, &hr)
		if err != nil {
			if errors.Is(err, sut.ErrWorkerDied) {
				return fmt.Errorf("%s: server process died during the metrics query %s: %s", stage, k.name, pt.CrashDetail(e.c))
			}
			return callErr(e.c, "metrics query", err)
		}
		var pr promResp
		if hr.Status != 200 || json.Unmarshal(hr.Body, &pr) != nil || pr.Status != "success" {
			// a query over a metric whose every datapoint is gone may be answered with an error
			anyMust := false
			for mk, w := range exp {
				if mk.org == k.org && mk.name == k.name && len(w.must) > 0 {
					anyMust = true
				}
			}
			if !anyMust {
				continue
			}
			if e.lenient && len(e.cs.OpenMetrics) > 0 && !e.rotatedOpen {
				// After a restart with unrotated metrics data the replayed meta-entry log can list metrics
				// segments whose files were never written; every metrics query then fails. Recovery of
				// unrotated metrics is C10's subject: the query side is not observable here, the metadata
				// files and directories still are (checkFiles).
				e.o.Class("metrics_queries_fail_after_restart_with_unrotated_metrics")
				continue
			}
			return fmt.Errorf("%s: metrics query %q tenant %d answered %d %s", stage, k.name, k.org, hr.Status, hr.Body)
		}
		got := map[mKey]map[int64]string{}
		for _, r := range pr.Data.Result {
			mk := mKey{k.org, r.Metric["__name__"], r.Metric["sid"]}
			if got[mk] == nil {
				got[mk] = map[int64]string{}
			}
			for _, v := range r.Values {
				if len(v) != 2 {
					continue
				}
				tsf, _ := v[0].(float64)
				got[mk][int64(tsf)] = fmt.Sprint(v[1])
			}
		}
		for mk, w := range exp {
			if mk.org != k.org || mk.name != k.name {
				continue
			}
			g := got[mk]
			for t, v := range w.must {
				if g[t] != strconv.FormatInt(v, 10) {
					return fmt.Errorf("%s: metric %s{sid=%q} tenant %d: surviving datapoint (t=horizon%+d min, value %d) is missing or changed (got %q); returned %v",
						stage, mk.name, mk.sid, mk.org, (t-e.hzMs/1000)/60, v, g[t], g)
				}
			}
			for t, gv := range g {
				if v, ok := w.must[t]; ok && gv == strconv.FormatInt(v, 10) {
					continue
				}
				if v, ok := w.may[t]; ok && gv == strconv.FormatInt(v, 10) {
					continue
				}
				if _, ok := w.never[t]; ok {
					return fmt.Errorf("%s: metric %s{sid=%q} tenant %d: datapoint of an expired metrics segment is still returned (t=horizon%+d min, value %s); returned %v",
						stage, mk.name, mk.sid, mk.org, (t-e.hzMs/1000)/60, gv, g)
				}
				return fmt.Errorf("%s: metric %s{sid=%q} tenant %d: unexpected datapoint t=horizon%+d min value %s; returned %v",
					stage, mk.name, mk.sid, mk.org, (t-e.hzMs/1000)/60, gv, g)
			}
			delete(got, mk)
		}
		for mk, g := range got {
			if len(g) > 0 {
				return fmt.Errorf("%s: metrics query %q tenant %d returns a series that was never sent: %v %v", stage, k.name, k.org, mk, g)
			}
		}
	}
	return nil
}

// checkFiles: metadata files list exactly the survivors, no victim directory is left, no survivor file changed.
func (e *engine) checkFiles(stage string) error {
	_, lmeta, err := readMetaFile(e.paths["segmeta"], "segmentKey")
	if err != nil {
		return fmt.Errorf("%s: %v", stage, err)
	}
	_, mmeta, err := readMetaFileDup(e.paths["mmeta"], "mSegmentDir", e.restarted)
	if err != nil {
		return fmt.Errorf("%s: %v", stage, err)
	}
	openPairs := map[pair]bool{}
	for i := range e.cs.OpenLogs {
		openPairs[pair{e.cs.OpenLogs[i].Org, e.cs.OpenLogs[i].Index}] = true
	}
	openMOrgs := map[int64]bool{}
	for i := range e.cs.OpenMetrics {
		openMOrgs[e.cs.OpenMetrics[i].Org] = true
	}
	known := map[string]*segRec{}
	for _, s := range e.segs {
		known[s.key] = s
		file, metas := "segmeta.json", lmeta
		if s.metric {
			file, metas = "metricmeta.json", mmeta
		}
		m, listed := metas[s.key]
		what := fmt.Sprintf("%s (tenant %d, index %q, round %d, newest event %+.1f min from the horizon)", s.key, s.org, s.index, s.round, float64(s.latest-e.hzMs)/60000)
		if s.victim {
			if listed {
				return fmt.Errorf("%s: %s still lists the expired segment %s", stage, file, what)
			}
			if _, err := os.Stat(s.dir); err == nil {
				left, _ := hashDir(s.dir)
				return fmt.Errorf("%s: directory of the expired segment %s is still there (%d files: %v)", stage, what, len(left), pt.SortedKeys(left))
			}
			continue
		}
		if !listed {
			return fmt.Errorf("%s: %s no longer lists the surviving segment %s", stage, file, what)
		}
		if !reflect.DeepEqual(m, s.meta) {
			a, _ := json.Marshal(s.meta)
			b, _ := json.Marshal(m)
			return fmt.Errorf("%s: %s entry of the surviving segment changed:\n before %s\n after  %s", stage, file, a, b)
		}
		now, err := hashDir(s.dir)
		if err != nil {
			return fmt.Errorf("%s: files of the surviving segment %s cannot be read: %v", stage, what, err)
		}
		for f, h := range s.hash {
			if strings.HasPrefix(f, "pqmr/") {
				continue
			}
			nh, ok := now[f]
			if !ok {
				return fmt.Errorf("%s: file %s of the surviving segment %s is gone", stage, f, what)
			}
			if nh != h {
				return fmt.Errorf("%s: file %s of the surviving segment %s changed", stage, f, what)
			}
		}
	}
	for k, m := range lmeta {
		if known[k] != nil {
			continue
		}
		p := pair{numField(m, "orgid"), fmt.Sprint(m["virtualTableName"])}
		if (e.rotatedOpen || e.lenient) && openPairs[p] {
			continue // the open segment of this index was rotated after the pass / recovered by the restart
		}
		return fmt.Errorf("%s: segmeta.json lists a segment that was never registered before: %s", stage, k)
	}
	for k, m := range mmeta {
		if known[k] != nil {
			continue
		}
		if e.restarted || (e.rotatedOpen && openMOrgs[numField(m, "orgid")]) {
			// after a restart the entries of the unrotated metrics segments (empty ones too) are replayed
			// from the meta-entry log: recovery of unrotated metrics is another property's subject
			continue
		}
		return fmt.Errorf("%s: metricmeta.json lists a segment that was never registered before: %s", stage, k)
	}
	return nil
}

func (e *engine) observe(stage string) error {
	if err := e.checkFiles(stage); err != nil {
		return err
	}
	if err := e.checkLogs(stage); err != nil {
		return err
	}
	return e.checkMetrics(stage)
}

// after: keep using the server after the passes (the open segments must still work).
func (e *engine) after() error {
	if e.cs.After == "" {
		return nil
	}
	vid := int64(100000)
	for i := range e.cs.OpenLogs {
		ol := &e.cs.OpenLogs[i]
		vid++
		ev := evt{Vid: vid, Off: marginMs + int64(i)*1000}
		if err := e.bulk(ol.Org, ol.Index, []evt{ev}); err != nil {
			return err
		}
		p := pair{ol.Org, ol.Index}
		e.extraAt[p] = append(e.extraAt[p], ev)
	}
	if err := e.c.Flush(); err != nil {
		return callErr(e.c, "flush after the pass", err)
	}
	e.flushedAll = true
	if e.cs.After == "rotate" {
		if err := e.c.Rotate(); err != nil {
			return callErr(e.c, "rotate after the pass", err)
		}
		if err := e.c.Call(&sut.Req{Op: "c14.mrotate"}, nil); err != nil {
			return callErr(e.c, "metrics rotation after the pass", err)
		}
		e.lastMRot = time.Now()
		e.rotatedOpen = true
	}
	return e.observe("after the passes and a " + e.cs.After + " of the open segments")
}

// metaWalTick waits until the 1-second timer has rewritten the metrics meta-entry log. That log lists the
// unrotated metrics segments and is replayed into metricmeta.json by a restart; a copy written before a
// segment was rotated would re-list that segment, which cannot happen when hours lie between rotation,
// expiry and restart.
func (e *engine) metaWalTick() {
	if e.lastMRot.IsZero() {
		return // nothing was rotated: the log cannot list a rotated segment
	}
	f := filepath.Join(e.paths["data"], e.paths["host"], "wal-ts", "metaentry", "metricsMetaEntry.wal")
	t0 := time.Now()
	for time.Since(t0) < 2500*time.Millisecond {
		fi, err := os.Stat(f)
		if err != nil || fi.ModTime().After(e.lastMRot.Add(5*time.Millisecond)) {
			return // no log on disk, or written after the last rotation
		}
		time.Sleep(10 * time.Millisecond)
	}
}

func (e *engine) hasMetrics() bool {
	if len(e.cs.OpenMetrics) > 0 {
		return true
	}
	for _, r := range e.cs.Rounds {
		if len(r.Metrics) > 0 {
			return true
		}
	}
	return false
}

// bounce stops the server (if it still runs) and starts it again on the same data directory.
func (e *engine) bounce(stage string) error {
	if e.c != nil && !e.c.Dead() && e.hasMetrics() {
		e.metaWalTick()
	}
	e.close()
	if err := e.start(); err != nil {
		return err
	}
	var synced bool
	if err := e.c.Call(&sut.Req{Op: "c14.waitsync", Ints: map[string]int64{"ms": 20000, "n": int64(len(e.cs.Orgs))}}, &synced); err != nil {
		return callErr(e.c, "waiting for the start-up metadata load ("+stage+")", err)
	}
	if !synced {
		return pt.Inconclusivef("%s: start-up metadata load did not finish within 20 s", stage)
	}
	e.restarted = true
	return nil
}

// restart after unrotated data was written: from now on the unrotated data is not asserted.
func (e *engine) restart(stage string) error {
	if err := e.bounce(stage); err != nil {
		return err
	}
	e.lenient = true
	return nil
}
