package c14

import (
	"fmt"
	"os"
	"os/exec"
	"strings"
	"testing"
	"time"

	"verifharness/pt"
	"verifharness/sut"
)

func body(index string, vid0 int, tss []uint64) []byte {
	var sb strings.Builder
	for i, ts := range tss {
		fmt.Fprintf(&sb, "{\"index\":{\"_index\":%q}}\n{\"_vid\":%d,\"timestamp\":%d,\"msg\":\"m%d\"}\n", index, vid0+i, ts, vid0+i)
	}
	return []byte(sb.String())
}

func TestProbe(t *testing.T) {
	if os.Getenv("C14_PROBE") == "" {
		t.Skip()
	}
	err := pt.WithWorker(sut.Options{Env: map[string]string{"VERIF_LOGLEVEL": "info"}}, func(c *sut.Client) error {
		var paths map[string]string
		if err := c.Call(&sut.Req{Op: "c14.paths"}, &paths); err != nil {
			return err
		}
		t.Logf("paths %v", paths)
		now := uint64(time.Now().UnixMilli())
		H := uint64(24)
		hz := now - H*3600_000
		show := func(stage string) {
			b, _ := os.ReadFile(paths["segmeta"])
			t.Logf("%s segmeta:\n%s", stage, b)
			b, _ = os.ReadFile(paths["mmeta"])
			t.Logf("%s mmeta:\n%s", stage, b)
			out, _ := exec.Command("find", paths["data"], "-type", "f").CombinedOutput()
			t.Logf("%s files:\n%s", stage, out)
			for _, idx := range []string{"a", "b", "*"} {
				sr, err := c.Search(sut.Query{Index: idx, Text: "*", Start: 1, End: now + 3600_000, Size: 1000})
				if err != nil {
					t.Logf("search %s err %v", idx, err)
					continue
				}
				var vids []string
				for _, r := range sr.Records {
					vids = append(vids, r["_vid"].Raw())
				}
				t.Logf("%s search %s: %s vids=%v", stage, idx, sr, vids)
			}
		}
		for _, st := range []struct {
			idx string
			vid int
			ts  []uint64
		}{{"a", 0, []uint64{hz - 5*3600_000, hz - 4*3600_000}}, {"b", 10, []uint64{hz - 7*3600_000}}} {
			if _, err := c.Bulk(0, body(st.idx, st.vid, st.ts)); err != nil {
				return err
			}
		}
		c.Flush()
		c.Rotate()
		c.Bulk(0, body("a", 20, []uint64{hz - 2*3600_000, hz + 3600_000}))
		c.Flush()
		c.Rotate()
		c.Bulk(0, body("a", 30, []uint64{hz - 9*3600_000}))
		c.Flush()
		show("before")
		if err := c.Call(&sut.Req{Op: "c14.retention", Ints: map[string]int64{"hours": int64(H)}}, nil); err != nil {
			return err
		}
		show("after")
		t.Logf("log:\n%s", c.LogTail(6000))
		return nil
	})
	if err != nil {
		t.Fatal(err)
	}
}
