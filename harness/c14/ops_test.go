package c14

// Worker-side operations of C14 (the worker is this same test binary, or the overlay build of it).

import (
	"fmt"
	"net/url"
	"reflect"
	"strings"
	"sync"
	"sync/atomic"
	"time"
	"unsafe"

	log "github.com/sirupsen/logrus"

	"github.com/siglens/siglens/pkg/config"
	otsdbwriter "github.com/siglens/siglens/pkg/integrations/otsdb/writer"
	"github.com/siglens/siglens/pkg/integrations/prometheus/promql"
	"github.com/siglens/siglens/pkg/retention"
	"github.com/siglens/siglens/pkg/segment/query"
	sutils "github.com/siglens/siglens/pkg/segment/utils"
	"github.com/siglens/siglens/pkg/segment/writer"
	"github.com/siglens/siglens/pkg/segment/writer/metrics"
	mmeta "github.com/siglens/siglens/pkg/segment/writer/metrics/meta"
	"github.com/valyala/fasthttp"

	"verifharness/sut"
)

// syncSeen counts the tenants for which the start-up goroutine query.initSyncSegMetaForAllIds has finished
// (it logs one Info line per tenant at the end of syncSegMetaWithSegFullMeta).
var syncSeen int32

type syncHook struct{}

func (syncHook) Levels() []log.Level { return []log.Level{log.InfoLevel} }
func (syncHook) Fire(e *log.Entry) error {
	if strings.HasPrefix(e.Message, "syncSegMetaWithSegFullMeta: myid=") {
		atomic.AddInt32(&syncSeen, 1)
	}
	return nil
}

func init() {
	log.AddHook(syncHook{})
	// c14.waitsync: wait until the start-up metadata sync has gone over Ints[n] tenants, then do what the
	// 5-second metrics metadata refresh does. Answers whether the sync was seen in time.
	sut.RegisterOp("c14.waitsync", func(r *sut.Req) (interface{}, error) {
		deadline := time.Now().Add(time.Duration(r.Ints["ms"]) * time.Millisecond)
		for int64(atomic.LoadInt32(&syncSeen)) < r.Ints["n"] && time.Now().Before(deadline) {
			time.Sleep(2 * time.Millisecond)
		}
		if int64(atomic.LoadInt32(&syncSeen)) < r.Ints["n"] {
			return false, nil
		}
		return true, query.PopulateMetricsMetadataForTheFile_TestOnly(mmeta.GetLocalMetricsMetaFName())
	})
	// c14.paths: where this server keeps its metadata files.
	sut.RegisterOp("c14.paths", func(r *sut.Req) (interface{}, error) {
		return map[string]string{
			"segmeta":   writer.GetLocalSegmetaFName(),
			"mmeta":     mmeta.GetLocalMetricsMetaFName(),
			"ingestDir": config.GetCurrentNodeIngestDir(),
			"data":      config.GetDataPath(),
			"host":      config.GetHostID(),
		}, nil
	})
	// c14.retention: one time-based retention pass for one tenant, the call internalRetentionCleaner makes.
	sut.RegisterOp("c14.retention", func(r *sut.Req) (interface{}, error) {
		hours := int(r.Ints["hours"])
		config.SetRetention(hours)
		retention.DoRetentionBasedDeletion(config.GetCurrentNodeIngestDir(), config.GetRetentionHours(), r.Org)
		return nil, nil
	})
	sut.RegisterOp("c14.mput", opMPut)
	sut.RegisterOp("c14.mrotate", opMRotate)
	sut.RegisterOp("c14.mquery", opMQuery)
}

type putResult struct {
	Success uint64 `json:"success"`
	Failed  uint64 `json:"failed"`
	Err     string `json:"err,omitempty"`
}

func opMPut(req *sut.Req) (interface{}, error) {
	ok, failed, err := otsdbwriter.HandlePutMetrics(req.Body, req.Org)
	r := &putResult{Success: ok, Failed: failed}
	if err != nil {
		r.Err = err.Error()
	}
	return r, nil
}

func segLock(ms *metrics.MetricsSegment) (*sync.RWMutex, error) {
	f := reflect.ValueOf(ms).Elem().FieldByName("rwLock")
	if !f.IsValid() || f.Kind() != reflect.Ptr || f.IsNil() {
		return nil, fmt.Errorf("MetricsSegment.rwLock not found (renamed?)")
	}
	if f.Type() != reflect.TypeOf((*sync.RWMutex)(nil)) {
		return nil, fmt.Errorf("MetricsSegment.rwLock has type %v", f.Type())
	}
	return (*sync.RWMutex)(unsafe.Pointer(f.Pointer())), nil
}

// opMRotate performs the size-triggered rotation of timeBasedRotate (lock; CheckAndRotate(false); unlock)
// with the segment size threshold lowered for the duration of the call: every metrics segment that holds
// data is closed and registered in metricmeta.json, a new one (next suffix) is started. Then it does what
// refreshMetricsMetadataLoop does every 5 s (the query side re-reads metricmeta.json).
func opMRotate(req *sut.Req) (interface{}, error) {
	for _, ms := range metrics.GetAllMetricsSegments() {
		l, err := segLock(ms)
		if err != nil {
			return nil, err
		}
		l.Lock()
		oldS := sutils.MAX_BYTES_METRICS_SEGMENT
		sutils.MAX_BYTES_METRICS_SEGMENT = 0
		err = ms.CheckAndRotate(false)
		sutils.MAX_BYTES_METRICS_SEGMENT = oldS
		l.Unlock()
		if err != nil {
			return nil, fmt.Errorf("CheckAndRotate: %v", err)
		}
	}
	return nil, query.PopulateMetricsMetadataForTheFile_TestOnly(mmeta.GetLocalMetricsMetaFName())
}

// opMQuery: Prometheus range query through the HTTP handler function (Args: query,start,end,step).
func opMQuery(req *sut.Req) (interface{}, error) {
	v := url.Values{}
	for k, s := range req.Args {
		v.Set(k, s)
	}
	ctx := &fasthttp.RequestCtx{}
	ctx.Request.Header.SetMethod("GET")
	ctx.Request.SetRequestURI("/promql/api/v1/query_range?" + v.Encode())
	promql.ProcessPromqlMetricsRangeSearchRequest(ctx, req.Org)
	body := append([]byte(nil), ctx.Response.Body()...)
	return &sut.HTTPResult{Status: ctx.Response.StatusCode(), Body: body}, nil
}
