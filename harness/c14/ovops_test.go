//go:build c14overlay

package c14

// Worker operations that exist only in the overlay build (see ovgen): the volume-based pass through its
// export shim and the crash-point controls.

import (
	"github.com/siglens/siglens/pkg/config"
	"github.com/siglens/siglens/pkg/retention"
	"github.com/siglens/siglens/pkg/verifcrash"

	"verifharness/sut"
)

func init() {
	// c14.volume: one volume-based pass, the call internalRetentionCleaner makes (Ints: gb, counter).
	sut.RegisterOp("c14.volume", func(r *sut.Req) (interface{}, error) {
		retention.VerifDoVolumeBasedDeletion(config.GetCurrentNodeIngestDir(), uint64(r.Ints["gb"]), int(r.Ints["counter"]))
		return nil, nil
	})
	// c14.arm: reset the hit counters; with Name != "" the process kills itself at the k-th hit of that point.
	sut.RegisterOp("c14.arm", func(r *sut.Req) (interface{}, error) {
		verifcrash.Arm(r.Name, r.Ints["k"])
		return nil, nil
	})
	sut.RegisterOp("c14.hits", func(r *sut.Req) (interface{}, error) {
		return verifcrash.Counts(), nil
	})
}
