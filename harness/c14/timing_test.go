package c14

import (
	"os"
	"testing"
	"time"

	"pgregory.net/rapid"

	"verifharness/pt"
)

func TestTiming(t *testing.T) {
	if os.Getenv("C14_PROBE") == "" {
		t.Skip()
	}
	for i := 0; i < 6; i++ {
		cs := rapid.Custom(genTimeCase).Example(i + 1)
		t0 := time.Now()
		err := checkTime(cs, &pt.Obs{})
		t.Logf("case %d: rounds=%d restart=%v after=%q reps=%d: %v err=%v", i, len(cs.Rounds), cs.Restart, cs.After, cs.Pass.Reps, time.Since(t0), err)
	}
}
