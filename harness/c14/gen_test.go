package c14

// C14 — case types and generators.
//
// All times of a case are stored RELATIVE to the retention horizon (now − H hours); the absolute
// timestamps are fixed when the case is executed. No generated time is closer than 10 minutes to the
// horizon, so the few seconds between "now" of the harness and "now" of the retention pass cannot
// change which side of the horizon an event is on.

import (
	"fmt"
	"sort"

	"pgregory.net/rapid"
)

const (
	marginMs   = int64(600_000) // nothing within 10 minutes of the horizon
	futureMs   = int64(120_000) // nothing younger than now − 2 minutes
	mStepSec   = int64(600)     // metrics datapoints sit on 600-s boundaries (one range-query bucket each)
	maxAgeMs   = int64(400 * 86400_000)
	maxAgeMStp = int64(20 * 144) // metrics: at most 20 days before the horizon (range-query size)
)

// evt is one log event: Off = event time in ms relative to the horizon (negative = older).
type evt struct {
	Vid int64 `json:"vid"`
	Off int64 `json:"off"`
}

// logSeg is what one tenant sends to one index between two rotations: it becomes one rotated segment.
type logSeg struct {
	Org    int64  `json:"org"`
	Index  string `json:"index"`
	Class  string `json:"class"` // old | new | straddle (documentation; the oracle uses the offsets)
	Events []evt  `json:"events"`
	SizeU  int    `json:"sizeU,omitempty"` // volume pass: simulated bytesReceivedCount in units of 1e8 bytes
}

type mPt struct {
	K int64 `json:"k"` // time = (horizon rounded down to 600 s) + K·600 s ; |K| >= 2
	V int64 `json:"v"`
}

type mSeries struct {
	Name string `json:"name"`
	Sid  string `json:"sid"`
	Pts  []mPt  `json:"pts"`
}

// mBatch is what one tenant sends to the metrics store between two metrics rotations; it becomes one
// rotated metrics segment per internal shard that received a series. All series of a batch are on the
// same side of the horizon (or all straddle it), so the verdict does not depend on the sharding.
type mBatch struct {
	Org    int64     `json:"org"`
	Class  string    `json:"class"`
	Series []mSeries `json:"series"`
	SizeU  int       `json:"sizeU,omitempty"`
}

type round struct {
	Logs    []logSeg `json:"logs"`
	Metrics []mBatch `json:"metrics,omitempty"` // at most one per tenant
}

type openLog struct {
	logSeg
	Flushed bool `json:"flushed"`
}

type passSpec struct {
	Kind    string  `json:"kind"`           // time | volume
	Orgs    []int64 `json:"orgs,omitempty"` // time: tenants the pass is run for (in this order)
	Reps    int     `json:"reps"`
	Allowed int     `json:"allowedGB,omitempty"`
	Counter int     `json:"counter,omitempty"` // volume: deletionWarningCounter (>= 5 deletes)
}

type c14Case struct {
	H           int       `json:"h"` // retention hours
	Orgs        []int64   `json:"orgs"`
	Rounds      []round   `json:"rounds"`
	OpenLogs    []openLog `json:"openLogs,omitempty"`
	OpenMetrics []mBatch  `json:"openMetrics,omitempty"`
	Pass        passSpec  `json:"pass"`
	After       string    `json:"after,omitempty"` // "" | flush | rotate : keep using the server after the passes
	Restart     bool      `json:"restart,omitempty"`
	PreRestart  bool      `json:"preRestart,omitempty"` // restart between the last rotation and the open segments / the pass
	// crash-point cases only
	CrashLabel string `json:"crashLabel,omitempty"`
	CrashK     int64  `json:"crashK,omitempty"`
}

var (
	orgPool    = []int64{0, 1, 7}
	indexPool  = []string{"app", "web-logs", "idx_a"}
	metricPool = []string{"cpu", "mem_used", "disk_io", "net_rx", "m1", "m2", "req_total", "lat"}
	hPool      = []int{24, 1, 360, 2, 6, 72, 720, 8760}
)

type pair struct {
	org   int64
	index string
}

type genState struct {
	t      *rapid.T
	h      int
	vid    int64
	usedK  map[int64]bool // metrics time steps already used (each datapoint gets its own bucket)
	usedMs map[int64]bool // volume: one distinct minute per segment's newest event
	volume bool
}

func (g *genState) newMs() int64 { return int64(g.h)*3600_000 - futureMs - marginMs }

// oldOff / newOff draw an event time on the old / new side of the horizon.
func (g *genState) oldOff() int64 {
	var x int64
	switch rapid.IntRange(0, 5).Draw(g.t, "ageBand") {
	case 0, 1, 2:
		x = rapid.Int64Range(0, 3600_000).Draw(g.t, "ageMs")
	case 3, 4:
		x = rapid.Int64Range(3600_000, 2*86400_000).Draw(g.t, "ageMs")
	default:
		x = rapid.Int64Range(2*86400_000, maxAgeMs).Draw(g.t, "ageMs")
	}
	return -(marginMs + x)
}

func (g *genState) newOff() int64 {
	return marginMs + rapid.Int64Range(0, g.newMs()).Draw(g.t, "youthMs")
}

func (g *genState) class(name string) string {
	switch rapid.IntRange(0, 9).Draw(g.t, name) {
	case 0, 1, 2, 3:
		return "old"
	case 4, 5, 6:
		return "new"
	default:
		return "straddle"
	}
}

func (g *genState) events(class string) []evt {
	n := rapid.IntRange(1, 4).Draw(g.t, "nEvents")
	if class == "straddle" && n < 2 {
		n = 2
	}
	evs := make([]evt, n)
	for i := range evs {
		var off int64
		switch {
		case class == "old", class == "straddle" && i == 0:
			off = g.oldOff()
		case class == "new", class == "straddle" && i == 1:
			off = g.newOff()
		default:
			if rapid.Bool().Draw(g.t, "side") {
				off = g.oldOff()
			} else {
				off = g.newOff()
			}
		}
		g.vid++
		evs[i] = evt{Vid: g.vid, Off: off}
	}
	if g.volume {
		// volume pass: the order of the segments' newest events decides; make every newest event unique to
		// the minute so that the order is never a tie (log times are ms, metrics times are s)
		mx := 0
		for i := range evs {
			if evs[i].Off > evs[mx].Off {
				mx = i
			}
		}
		m := evs[mx].Off / 60_000
		for g.usedMs[m] || g.usedMs[m-1] || g.usedMs[m+1] {
			m += 3
		}
		g.usedMs[m] = true
		evs[mx].Off = m*60_000 + 1
		for i := range evs {
			if i != mx && evs[i].Off >= evs[mx].Off {
				evs[i].Off = evs[mx].Off - 1 - int64(i)
			}
		}
	}
	return evs
}

func (g *genState) logSeg(p pair, class string) logSeg {
	s := logSeg{Org: p.org, Index: p.index, Class: class, Events: g.events(class)}
	if g.volume {
		s.SizeU = rapid.IntRange(1, 30).Draw(g.t, "sizeU")
	}
	return s
}

func (g *genState) freshK(old bool) int64 {
	for try := 0; ; try++ {
		var k int64
		if old {
			if rapid.IntRange(0, 3).Draw(g.t, "kBand") < 3 {
				k = -rapid.Int64Range(2, 40).Draw(g.t, "kOld")
			} else {
				k = -rapid.Int64Range(2, maxAgeMStp).Draw(g.t, "kOld")
			}
		} else {
			hi := int64(g.h)*6 - 2
			if hi > maxAgeMStp {
				hi = maxAgeMStp
			}
			k = rapid.Int64Range(2, hi).Draw(g.t, "kNew")
		}
		for d := int64(0); d < 3000; d++ {
			c := k - d
			if !old {
				c = k + d
				if c > int64(g.h)*6-2 {
					break
				}
			}
			if !g.usedK[c] {
				g.usedK[c] = true
				return c
			}
		}
		if try > 20 {
			// the new side of a 1-hour retention has only three buckets: fall back to the old side
			old = true
		}
	}
}

func (g *genState) mBatch(org int64, class string) mBatch {
	b := mBatch{Org: org, Class: class}
	if int64(g.h)*6-2 < 4 && class != "old" && len(g.usedK) > 0 {
		class = "old" // almost no room on the new side
		b.Class = class
	}
	nSeries := rapid.IntRange(1, 3).Draw(g.t, "nSeries")
	seen := map[string]bool{}
	for i := 0; i < nSeries; i++ {
		name := rapid.SampledFrom(metricPool).Draw(g.t, "metric")
		sid := fmt.Sprintf("s%d", rapid.IntRange(0, 2).Draw(g.t, "sid"))
		if seen[name+"/"+sid] {
			continue
		}
		seen[name+"/"+sid] = true
		n := rapid.IntRange(1, 3).Draw(g.t, "nPts")
		if class == "straddle" && n < 2 {
			n = 2
		}
		s := mSeries{Name: name, Sid: sid}
		for j := 0; j < n; j++ {
			old := class == "old" || (class == "straddle" && j == 0) || (class == "straddle" && j > 1 && rapid.Bool().Draw(g.t, "side"))
			g.vid++
			s.Pts = append(s.Pts, mPt{K: g.freshK(old), V: g.vid})
		}
		sort.Slice(s.Pts, func(a, b int) bool { return s.Pts[a].K < s.Pts[b].K })
		b.Series = append(b.Series, s)
	}
	if g.volume {
		b.SizeU = rapid.IntRange(1, 30).Draw(g.t, "sizeU")
	}
	return b
}

// genHistory draws tenants, indexes, rounds (rotated segments), open segments.
func genHistory(t *rapid.T, volume bool) (*c14Case, *genState) {
	g := &genState{t: t, usedK: map[int64]bool{}, usedMs: map[int64]bool{}, volume: volume}
	cs := &c14Case{}
	cs.H = rapid.SampledFrom(hPool).Draw(t, "H")
	g.h = cs.H
	nOrgs := 1
	if !volume {
		switch rapid.IntRange(0, 9).Draw(t, "nOrgs") {
		case 5, 6, 7:
			nOrgs = 2
		case 8, 9:
			nOrgs = 3
		}
	}
	cs.Orgs = append([]int64(nil), orgPool[:nOrgs]...)
	var pairs []pair
	for _, org := range cs.Orgs {
		n := rapid.IntRange(1, 3).Draw(t, "nIndexes")
		for i := 0; i < n; i++ {
			pairs = append(pairs, pair{org, indexPool[i]})
		}
	}
	nSegs := rapid.IntRange(2, 12).Draw(t, "nSegs")
	nMetricBatches := 0
	switch rapid.IntRange(0, 9).Draw(t, "nMetricBatches") {
	case 3, 4, 5:
		nMetricBatches = 1
	case 6, 7, 8:
		nMetricBatches = 2
	case 9:
		nMetricBatches = 3
	}
	// The first pair gets a victim and a survivor in different rounds (most cases).
	mixed := rapid.IntRange(0, 9).Draw(t, "mixed") < 8
	var forced []string
	if mixed {
		forced = []string{"old", "new"}
		if rapid.Bool().Draw(t, "mixOrder") {
			forced = []string{"new", "old"}
		}
		if rapid.IntRange(0, 3).Draw(t, "mixStraddle") == 0 {
			forced[rapid.IntRange(0, 1).Draw(t, "mixWhich")] = "straddle"
			if forced[0] != "old" && forced[1] != "old" {
				forced[0] = "old"
			}
		}
	}
	made := 0
	for made < nSegs || len(forced) > 0 {
		var r round
		per := rapid.IntRange(1, 3).Draw(t, "segsInRound")
		used := map[pair]bool{}
		if len(forced) > 0 {
			r.Logs = append(r.Logs, g.logSeg(pairs[0], forced[0]))
			forced = forced[1:]
			used[pairs[0]] = true
			made++
		}
		for len(r.Logs) < per && made < nSegs {
			p := pairs[rapid.IntRange(0, len(pairs)-1).Draw(t, "pair")]
			if used[p] {
				break
			}
			used[p] = true
			r.Logs = append(r.Logs, g.logSeg(p, g.class("class")))
			made++
		}
		cs.Rounds = append(cs.Rounds, r)
	}
	for i := 0; i < nMetricBatches; i++ {
		ri := rapid.IntRange(0, len(cs.Rounds)-1).Draw(t, "metricRound")
		org := cs.Orgs[rapid.IntRange(0, len(cs.Orgs)-1).Draw(t, "metricOrg")]
		dup := false
		for _, b := range cs.Rounds[ri].Metrics {
			if b.Org == org {
				dup = true
			}
		}
		if !dup {
			cs.Rounds[ri].Metrics = append(cs.Rounds[ri].Metrics, g.mBatch(org, g.class("mclass")))
		}
	}
	// open (unrotated) segments
	nOpen := rapid.IntRange(0, 2).Draw(t, "nOpen")
	usedOpen := map[pair]bool{}
	for i := 0; i < nOpen; i++ {
		p := pairs[rapid.IntRange(0, len(pairs)-1).Draw(t, "openPair")]
		if usedOpen[p] {
			continue
		}
		usedOpen[p] = true
		ol := openLog{logSeg: g.logSeg(p, g.class("openClass")), Flushed: rapid.IntRange(0, 3).Draw(t, "flushed") > 0}
		ol.SizeU = 0
		cs.OpenLogs = append(cs.OpenLogs, ol)
	}
	if rapid.IntRange(0, 3).Draw(t, "openMetrics") == 0 {
		org := cs.Orgs[rapid.IntRange(0, len(cs.Orgs)-1).Draw(t, "openMetricOrg")]
		b := g.mBatch(org, g.class("openMClass"))
		b.SizeU = 0
		cs.OpenMetrics = append(cs.OpenMetrics, b)
	}
	return cs, g
}

func genTimeCase(t *rapid.T) *c14Case {
	cs, _ := genHistory(t, false)
	cs.Pass.Kind = "time"
	// the pass is run for every tenant (most cases) or for a non-empty subset, in a drawn order
	orgs := append([]int64(nil), cs.Orgs...)
	if len(orgs) > 1 {
		if rapid.IntRange(0, 3).Draw(t, "passSubset") == 0 {
			keep := rapid.IntRange(1, len(orgs)-1).Draw(t, "passOrgs")
			off := rapid.IntRange(0, len(orgs)-1).Draw(t, "passOrgOff")
			var sub []int64
			for i := 0; i < keep; i++ {
				sub = append(sub, orgs[(off+i)%len(orgs)])
			}
			orgs = sub
		} else if rapid.Bool().Draw(t, "passRev") {
			for i, j := 0, len(orgs)-1; i < j; i, j = i+1, j-1 {
				orgs[i], orgs[j] = orgs[j], orgs[i]
			}
		}
	}
	cs.Pass.Orgs = orgs
	cs.Pass.Reps = []int{1, 2, 1, 3}[rapid.IntRange(0, 3).Draw(t, "reps")]
	cs.After = []string{"", "flush", "rotate", ""}[rapid.IntRange(0, 3).Draw(t, "after")]
	cs.Restart = rapid.IntRange(0, 3).Draw(t, "restart") == 0
	cs.PreRestart = rapid.IntRange(0, 2).Draw(t, "preRestart") == 0
	return cs
}

func genVolumeCase(t *rapid.T) *c14Case {
	cs, _ := genHistory(t, true)
	cs.Pass.Kind = "volume"
	total := 0
	for _, r := range cs.Rounds {
		for _, l := range r.Logs {
			total += l.SizeU
		}
		for _, b := range r.Metrics {
			total += b.SizeU * 3 // upper estimate: up to a few shards per batch
		}
	}
	maxGB := total/10 + 1
	cs.Pass.Allowed = rapid.IntRange(0, maxGB).Draw(t, "allowedGB")
	switch rapid.IntRange(0, 9).Draw(t, "counter") {
	case 8:
		cs.Pass.Counter = rapid.IntRange(0, 4).Draw(t, "lowCounter")
	case 9:
		cs.Pass.Counter = rapid.IntRange(6, 50).Draw(t, "highCounter")
	default:
		cs.Pass.Counter = 5
	}
	cs.Pass.Reps = []int{1, 2, 1, 3}[rapid.IntRange(0, 3).Draw(t, "reps")]
	cs.After = []string{"", "flush", "rotate", ""}[rapid.IntRange(0, 3).Draw(t, "after")]
	cs.Restart = rapid.IntRange(0, 3).Draw(t, "restart") == 0
	cs.PreRestart = rapid.IntRange(0, 2).Draw(t, "preRestart") == 0
	return cs
}
