package c09

import (
	"fmt"
	"net/url"
	"reflect"
	"sync"
	"unsafe"

	otsdbwriter "github.com/siglens/siglens/pkg/integrations/otsdb/writer"
	"github.com/siglens/siglens/pkg/integrations/prometheus/promql"
	"github.com/siglens/siglens/pkg/segment/query"
	sutils "github.com/siglens/siglens/pkg/segment/utils"
	"github.com/siglens/siglens/pkg/segment/writer/metrics"
	mmeta "github.com/siglens/siglens/pkg/segment/writer/metrics/meta"
	"github.com/valyala/fasthttp"

	"verifharness/sut"
)

// Worker-side operations of the C09 check (the worker is this same test binary).
//
//	c09_put    Body = OTSDB put payload (JSON array)            -> putResult
//	c09_rotate Name = block | segment | shutdown                -> number of metrics segments touched
//	c09_query  Args = query,start,end,step (range) | query,time -> sut.HTTPResult of the Prometheus-API handler
func init() {
	sut.RegisterOp("c09_put", opPut)
	sut.RegisterOp("c09_rotate", opRotate)
	sut.RegisterOp("c09_query", opQuery)
}

type putResult struct {
	Success uint64 `json:"success"`
	Failed  uint64 `json:"failed"`
	Err     string `json:"err,omitempty"`
}

func opPut(req *sut.Req) (interface{}, error) {
	ok, failed, err := otsdbwriter.HandlePutMetrics(req.Body, req.Org)
	r := &putResult{Success: ok, Failed: failed}
	if err != nil {
		r.Err = err.Error()
	}
	return r, nil
}

// segLock returns the read-write lock that guards a metrics segment. Every production caller of
// CheckAndRotate (timeBasedRotate, ForceFlushMetricsBlock) holds it; the field is unexported, so
// the worker reaches it by reflection to rotate under the same discipline as production code.
func segLock(ms *metrics.MetricsSegment) (*sync.RWMutex, error) {
	f := reflect.ValueOf(ms).Elem().FieldByName("rwLock")
	if !f.IsValid() || f.Kind() != reflect.Ptr {
		return nil, fmt.Errorf("MetricsSegment.rwLock not found")
	}
	p := *(**sync.RWMutex)(unsafe.Pointer(f.UnsafeAddr()))
	if p == nil {
		return nil, fmt.Errorf("MetricsSegment.rwLock is nil")
	}
	return p, nil
}

// opRotate drives the size-triggered rotation path of production (timeBasedRotate ->
// CheckAndRotate(false)) at a chosen moment by lowering the exported size thresholds for the
// duration of the call:
//
//	block    the open metrics block of every segment is written out (.tso/.tsg) and a new block started
//	segment  additionally the metrics segment is closed, registered in the metrics meta and a new
//	         segment (next suffix) is started
//	shutdown metrics.ForceFlushMetricsBlock(), what cmd/startup does on exit (the worker must be
//	         restarted afterwards; the segment is registered under its current suffix)
func opRotate(req *sut.Req) (interface{}, error) {
	switch req.Name {
	case "shutdown":
		metrics.ForceFlushMetricsBlock()
		return 0, nil
	case "block", "segment":
	default:
		return nil, fmt.Errorf("unknown rotation %q", req.Name)
	}
	oldB, oldS := sutils.MAX_BYTES_METRICS_BLOCK, sutils.MAX_BYTES_METRICS_SEGMENT
	sutils.MAX_BYTES_METRICS_BLOCK = 0
	if req.Name == "segment" {
		sutils.MAX_BYTES_METRICS_SEGMENT = 0
	}
	defer func() {
		sutils.MAX_BYTES_METRICS_BLOCK, sutils.MAX_BYTES_METRICS_SEGMENT = oldB, oldS
	}()
	n := 0
	for _, ms := range metrics.GetAllMetricsSegments() {
		l, err := segLock(ms)
		if err != nil {
			return nil, err
		}
		l.Lock()
		err = ms.CheckAndRotate(false)
		l.Unlock()
		if err != nil {
			return nil, fmt.Errorf("CheckAndRotate: %v", err)
		}
		n++
	}
	if req.Name == "segment" {
		// The query side learns about rotated metrics segments from metricmeta.json, which it
		// re-reads every 5 s (refreshMetricsMetadataLoop) and only if the file's mtime (1 s
		// granularity) is newer than the last refresh. The check must not depend on the wall
		// clock, so the refresh is forced here through the exported test hook.
		if err := query.PopulateMetricsMetadataForTheFile_TestOnly(mmeta.GetLocalMetricsMetaFName()); err != nil {
			return nil, fmt.Errorf("metrics meta refresh: %v", err)
		}
	}
	return n, nil
}

func opQuery(req *sut.Req) (interface{}, error) {
	v := url.Values{}
	for k, s := range req.Args {
		v.Set(k, s)
	}
	ctx := &fasthttp.RequestCtx{}
	ctx.Request.Header.SetMethod("GET")
	if _, instant := req.Args["time"]; instant {
		ctx.Request.SetRequestURI("/promql/api/v1/query?" + v.Encode())
		promql.ProcessPromqlMetricsSearchRequest(ctx, req.Org)
	} else {
		ctx.Request.SetRequestURI("/promql/api/v1/query_range?" + v.Encode())
		promql.ProcessPromqlMetricsRangeSearchRequest(ctx, req.Org)
	}
	body := append([]byte(nil), ctx.Response.Body()...)
	return &sut.HTTPResult{Status: ctx.Response.StatusCode(), Body: body}, nil
}
