package c09

import (
	"fmt"
	"math"
	"regexp"
	"sort"
	"strconv"
	"strings"
)

// ---- case data ----------------------------------------------------------------------------------

// Label is one label of a series (labels are kept sorted by key).
type Label struct {
	K string `json:"k"`
	V string `json:"v"`
}

// Series is one generated time series. It has a sample at every grid point i >= Start:
// timestamp T0+i*Step, value Vals[i] (Vals[i] for i < Start is unused).
type Series struct {
	Metric string    `json:"metric"`
	Labels []Label   `json:"labels"`
	Start  int       `json:"start"`
	Vals   []float64 `json:"vals"`
	// Cuts[j] = first grid index of this series that is NOT in ingest batch j (non-decreasing,
	// last = N): batch j carries the points [Cuts[j-1], Cuts[j]).
	Cuts []int `json:"cuts"`
}

func (s *Series) label(k string) (string, bool) {
	for _, l := range s.Labels {
		if l.K == k {
			return l.V, true
		}
	}
	return "", false
}

// Matcher is one label matcher of a selector. Op is one of = != =~ !~.
type Matcher struct {
	K  string `json:"k"`
	Op string `json:"op"`
	V  string `json:"v"`
}

// Expr is a PromQL expression of the generated sub-language.
//
//	Kind "sel": Metric{Matchers}
//	Kind "agg": Agg [by|without (Group)] (Arg)        Arg is a "sel"
//	Kind "bin": L Bin R                               operands: sel | agg | num (not both num)
//	Kind "num": Num
//	Kind "raw": Text verbatim (range-vector functions etc.; never compared with the reference)
type Expr struct {
	Kind     string    `json:"kind"`
	Metric   string    `json:"metric,omitempty"`
	Matchers []Matcher `json:"matchers,omitempty"`
	Agg      string    `json:"agg,omitempty"`
	Grouping string    `json:"grouping,omitempty"` // "", "by", "without"
	Group    []string  `json:"group,omitempty"`
	Arg      *Expr     `json:"arg,omitempty"`
	Bin      string    `json:"bin,omitempty"`
	L        *Expr     `json:"l,omitempty"`
	R        *Expr     `json:"r,omitempty"`
	Num      float64   `json:"num,omitempty"`
	Text     string    `json:"text,omitempty"`
}

func fmtNum(f float64) string { return strconv.FormatFloat(f, 'g', -1, 64) }

func (e *Expr) String() string {
	switch e.Kind {
	case "sel":
		var sb strings.Builder
		sb.WriteString(e.Metric)
		if len(e.Matchers) > 0 {
			sb.WriteString("{")
			for i, m := range e.Matchers {
				if i > 0 {
					sb.WriteString(",")
				}
				sb.WriteString(m.K + m.Op + strconv.Quote(m.V))
			}
			sb.WriteString("}")
		}
		return sb.String()
	case "agg":
		g := ""
		if e.Grouping != "" {
			g = " " + e.Grouping + " (" + strings.Join(e.Group, ", ") + ")"
		}
		return e.Agg + g + " (" + e.Arg.String() + ")"
	case "bin":
		return e.L.String() + " " + e.Bin + " " + e.R.String()
	case "num":
		return fmtNum(e.Num)
	case "raw":
		return e.Text
	}
	return "?" + e.Kind
}

// ---- reference evaluator on the grid ------------------------------------------------------------

// rseries is one series of an instant-vector-per-step result: value and presence per grid index.
type rseries struct {
	labels  map[string]string // without __name__
	vals    []float64
	has     []bool
	scale   []float64 // magnitude that bounds rounding error of vals[i] (sum of |members|)
	any     []bool    // don't-care point (division by zero): may be absent or hold any value
	members int       // aggregation: number of input series of the group (diagnostics)
}

func labelKey(m map[string]string) string {
	ks := make([]string, 0, len(m))
	for k := range m {
		if k == "__name__" {
			continue
		}
		ks = append(ks, k)
	}
	sort.Strings(ks)
	var sb strings.Builder
	for _, k := range ks {
		sb.WriteString(k)
		sb.WriteString("=")
		sb.WriteString(strconv.Quote(m[k]))
		sb.WriteString(",")
	}
	return sb.String()
}

type rvec map[string]*rseries // keyed by labelKey

func newRS(n int, labels map[string]string) *rseries {
	return &rseries{labels: labels, vals: make([]float64, n), has: make([]bool, n), scale: make([]float64, n), any: make([]bool, n)}
}

// matches implements Prometheus matcher semantics: a missing label is the empty string; regular
// expressions are fully anchored.
func (m *Matcher) matches(s *Series) (bool, error) {
	v, _ := s.label(m.K)
	switch m.Op {
	case "=":
		return v == m.V, nil
	case "!=":
		return v != m.V, nil
	case "=~", "!~":
		re, err := regexp.Compile("^(?:" + m.V + ")$")
		if err != nil {
			return false, err
		}
		return re.MatchString(v) == (m.Op == "=~"), nil
	}
	return false, fmt.Errorf("bad matcher op %q", m.Op)
}

func selects(e *Expr, s *Series) bool {
	if s.Metric != e.Metric {
		return false
	}
	for i := range e.Matchers {
		ok, err := e.Matchers[i].matches(s)
		if err != nil || !ok {
			return false
		}
	}
	return true
}

type evalInfo struct {
	excluded    int // series of the selected metric rejected by a matcher (max over selectors)
	bigGroups   int // output groups with >= 2 member series (max over aggregations)
	groups      int
	divZero     bool
	emptyResult bool
}

// refEval evaluates e on the aligned grid. isScalar reports a scalar result (value in num).
func refEval(cs *Case, e *Expr, info *evalInfo) (vec rvec, num float64, isScalar bool, err error) {
	n := cs.N
	switch e.Kind {
	case "num":
		return nil, e.Num, true, nil
	case "sel":
		out := rvec{}
		excl := 0
		for i := range cs.Series {
			s := &cs.Series[i]
			if s.Metric != e.Metric {
				continue
			}
			if !selects(e, s) {
				excl++
				continue
			}
			lm := map[string]string{}
			for _, l := range s.Labels {
				lm[l.K] = l.V
			}
			rs := newRS(n, lm)
			for t := s.Start; t < n; t++ {
				rs.vals[t], rs.has[t], rs.scale[t] = s.Vals[t], true, math.Abs(s.Vals[t])
			}
			rs.members = 1
			out[labelKey(lm)] = rs
		}
		if info != nil && excl > info.excluded {
			info.excluded = excl
		}
		return out, 0, false, nil
	case "agg":
		in, _, sc, err := refEval(cs, e.Arg, info)
		if err != nil {
			return nil, 0, false, err
		}
		if sc {
			return nil, 0, false, fmt.Errorf("aggregation over scalar")
		}
		type acc struct {
			rs  *rseries
			cnt []int
		}
		groups := map[string]*acc{}
		for _, s := range in {
			gl := map[string]string{}
			switch e.Grouping {
			case "by":
				for _, k := range e.Group {
					if v, ok := s.labels[k]; ok {
						gl[k] = v
					}
				}
			case "without":
				for k, v := range s.labels {
					gl[k] = v
				}
				for _, k := range e.Group {
					delete(gl, k)
				}
			}
			key := labelKey(gl)
			a := groups[key]
			if a == nil {
				a = &acc{rs: newRS(n, gl), cnt: make([]int, n)}
				groups[key] = a
			}
			a.rs.members++
			for t := 0; t < n; t++ {
				if !s.has[t] {
					continue
				}
				v := s.vals[t]
				if a.cnt[t] == 0 {
					switch e.Agg {
					case "sum", "avg":
						a.rs.vals[t] = v
					case "min", "max":
						a.rs.vals[t] = v
					}
				} else {
					switch e.Agg {
					case "sum", "avg":
						a.rs.vals[t] += v
					case "min":
						a.rs.vals[t] = math.Min(a.rs.vals[t], v)
					case "max":
						a.rs.vals[t] = math.Max(a.rs.vals[t], v)
					}
				}
				a.rs.scale[t] += math.Abs(v)
				a.cnt[t]++
				a.rs.has[t] = true
			}
		}
		out := rvec{}
		big := 0
		for key, a := range groups {
			for t := 0; t < n; t++ {
				if !a.rs.has[t] {
					continue
				}
				switch e.Agg {
				case "avg":
					a.rs.vals[t] /= float64(a.cnt[t])
				case "count":
					a.rs.vals[t] = float64(a.cnt[t])
					a.rs.scale[t] = float64(a.cnt[t])
				}
			}
			if a.rs.members >= 2 {
				big++
			}
			out[key] = a.rs
		}
		if info != nil {
			if big > info.bigGroups {
				info.bigGroups = big
			}
			if len(out) > info.groups {
				info.groups = len(out)
			}
		}
		return out, 0, false, nil
	case "bin":
		lv, ln, lsc, err := refEval(cs, e.L, info)
		if err != nil {
			return nil, 0, false, err
		}
		rv, rn, rsc, err := refEval(cs, e.R, info)
		if err != nil {
			return nil, 0, false, err
		}
		apply := func(a, b float64) (float64, bool) {
			switch e.Bin {
			case "+":
				return a + b, false
			case "-":
				return a - b, false
			case "*":
				return a * b, false
			case "/":
				if b == 0 {
					return 0, true
				}
				return a / b, false
			}
			return math.NaN(), false
		}
		comb := func(ls *rseries, lnum float64, rs *rseries, rnum float64, labels map[string]string) *rseries {
			o := newRS(n, labels)
			for t := 0; t < n; t++ {
				a, b := lnum, rnum
				sa, sb := math.Abs(lnum), math.Abs(rnum)
				present := true
				if ls != nil {
					a, sa = ls.vals[t], ls.scale[t]
					present = present && ls.has[t]
				}
				if rs != nil {
					b, sb = rs.vals[t], rs.scale[t]
					present = present && rs.has[t]
				}
				if !present {
					continue
				}
				v, dz := apply(a, b)
				if dz {
					o.any[t] = true
					if info != nil {
						info.divZero = true
					}
					continue
				}
				o.vals[t], o.has[t] = v, true
				switch e.Bin {
				case "+", "-":
					o.scale[t] = sa + sb
				case "*":
					o.scale[t] = sa * sb
				case "/":
					o.scale[t] = sa / math.Abs(b)
				}
			}
			return o
		}
		switch {
		case lsc && rsc:
			v, _ := apply(ln, rn)
			return nil, v, true, nil
		case lsc:
			out := rvec{}
			for k, s := range rv {
				out[k] = comb(nil, ln, s, 0, s.labels)
			}
			return out, 0, false, nil
		case rsc:
			out := rvec{}
			for k, s := range lv {
				out[k] = comb(s, 0, nil, rn, s.labels)
			}
			return out, 0, false, nil
		default:
			// one-to-one matching on the full label sets (metric name ignored)
			out := rvec{}
			for k, s := range lv {
				if r, ok := rv[k]; ok {
					out[k] = comb(s, 0, r, 0, s.labels)
				}
			}
			return out, 0, false, nil
		}
	}
	return nil, 0, false, fmt.Errorf("refEval: unsupported kind %q", e.Kind)
}

// ---- observed results --------------------------------------------------------------------------

// obsSeries is one series of a query_range answer.
type obsSeries struct {
	Labels map[string]string
	Points map[uint32]float64
}

type obsVec map[string]*obsSeries // keyed by labelKey (without __name__)

func closeEnough(got, want, scale float64) bool {
	if got == want {
		return true
	}
	if math.IsNaN(got) || math.IsNaN(want) || math.IsInf(got, 0) || math.IsInf(want, 0) {
		return false
	}
	// relative 1e-9 of the operand magnitude, with an absolute floor far below the 1/4 lattice of
	// the generated values (summation order may differ between layouts and from the reference)
	tol := math.Max(1e-9*math.Max(math.Abs(want), scale), 1e-9)
	return math.Abs(got-want) <= tol
}

// compareWithRef checks an observed matrix against the reference vector on the grid.
func compareWithRef(cs *Case, got obsVec, want rvec) error {
	for key, w := range want {
		anyPresent := false
		for t := 0; t < cs.N; t++ {
			if w.has[t] {
				anyPresent = true
			}
		}
		g := got[key]
		if g == nil {
			if anyPresent {
				return fmt.Errorf("series {%s} is missing from the answer (expected %s)", key, fmtRef(cs, w))
			}
			continue
		}
		for t := 0; t < cs.N; t++ {
			ts := cs.T0 + uint32(t)*cs.Step
			gv, ok := g.Points[ts]
			switch {
			case w.any[t]:
				continue
			case w.has[t] && !ok:
				return fmt.Errorf("series {%s}: no value at t=%d (grid index %d), expected %s", key, ts, t, fmtNum(w.vals[t]))
			case !w.has[t] && ok:
				return fmt.Errorf("series {%s}: value %s at t=%d (grid index %d) where no member series has a sample", key, fmtNum(gv), ts, t)
			case w.has[t] && !closeEnough(gv, w.vals[t], w.scale[t]):
				return fmt.Errorf("series {%s} at t=%d (grid index %d): got %s, expected %s", key, ts, t, fmtNum(gv), fmtNum(w.vals[t]))
			}
		}
		for ts := range g.Points {
			if ts < cs.T0 || (ts-cs.T0)%cs.Step != 0 || int((ts-cs.T0)/cs.Step) >= cs.N {
				return fmt.Errorf("series {%s}: value at t=%d which is not an evaluation step of the query", key, ts)
			}
		}
	}
	for key, g := range got {
		if _, ok := want[key]; !ok {
			return fmt.Errorf("unexpected series {%s} in the answer: %v", key, fmtObs(g))
		}
	}
	return nil
}

func fmtRef(cs *Case, w *rseries) string {
	var sb strings.Builder
	for t := 0; t < cs.N; t++ {
		if w.has[t] {
			fmt.Fprintf(&sb, "%d:%s ", cs.T0+uint32(t)*cs.Step, fmtNum(w.vals[t]))
		}
	}
	return strings.TrimSpace(sb.String())
}

func fmtObs(g *obsSeries) string {
	ts := make([]uint32, 0, len(g.Points))
	for t := range g.Points {
		ts = append(ts, t)
	}
	sort.Slice(ts, func(i, j int) bool { return ts[i] < ts[j] })
	var sb strings.Builder
	for _, t := range ts {
		fmt.Fprintf(&sb, "%d:%s ", t, fmtNum(g.Points[t]))
	}
	return strings.TrimSpace(sb.String())
}

func fmtObsVec(v obsVec) string {
	ks := make([]string, 0, len(v))
	for k := range v {
		ks = append(ks, k)
	}
	sort.Strings(ks)
	var sb strings.Builder
	for _, k := range ks {
		fmt.Fprintf(&sb, "\n      {%s} %s", k, fmtObs(v[k]))
	}
	if len(ks) == 0 {
		return " (empty)"
	}
	return sb.String()
}

// sameObs compares two observed answers of the same query (layout invariance).
func sameObs(a, b obsVec) error {
	for k, sa := range a {
		sb := b[k]
		if sb == nil {
			return fmt.Errorf("series {%s} present before, missing now", k)
		}
		if len(sa.Points) != len(sb.Points) {
			return fmt.Errorf("series {%s}: %d points before, %d now (before %s | now %s)", k, len(sa.Points), len(sb.Points), fmtObs(sa), fmtObs(sb))
		}
		for t, va := range sa.Points {
			vb, ok := sb.Points[t]
			if !ok {
				return fmt.Errorf("series {%s}: point at t=%d present before, missing now", k, t)
			}
			if !(closeEnough(va, vb, math.Abs(va)) || (math.IsNaN(va) && math.IsNaN(vb))) {
				return fmt.Errorf("series {%s} at t=%d: %s before, %s now", k, t, fmtNum(va), fmtNum(vb))
			}
		}
	}
	for k := range b {
		if a[k] == nil {
			return fmt.Errorf("series {%s} missing before, present now", k)
		}
	}
	return nil
}
