package c09

import (
	"fmt"
	"sort"

	"pgregory.net/rapid"

	"verifharness/pt"
)

// Layout: how the samples reach the store and which storage transitions happen before and
// between the query checkpoints.
type Layout struct {
	GoMaxProcs  int      `json:"gomaxprocs"`  // 0 = leave
	Batches     int      `json:"batches"`     // number of ingest batches (Series.Cuts has this length)
	After       []string `json:"after"`       // action after batch i (i < Batches-1): "", block, segment, restart
	Final       []string `json:"final"`       // actions after the first checkpoint; a checkpoint follows each
	SeriesMajor bool     `json:"seriesMajor"` // order of points inside a batch: series-major or time-major
	CutMode     string   `json:"cutMode"`     // how Cuts were drawn: time, series, mixed (informational)
}

// Query is one checked query. Mode:
//
//	ref     answer compared with the reference evaluator at every checkpoint (and across checkpoints)
//	laws    E is an "agg" template: the algebraic laws are checked on the answers themselves
//	layout  only equality across checkpoints (range-vector functions, off-grid step)
type Query struct {
	Mode string `json:"mode"`
	E    *Expr  `json:"e"`
	Step uint32 `json:"step,omitempty"` // layout mode: evaluation step if different from the grid step
}

type Case struct {
	T0      uint32   `json:"t0"`   // first grid timestamp (seconds), multiple of Step
	Step    uint32   `json:"step"` // grid step = evaluation step (seconds)
	N       int      `json:"n"`    // grid points
	Series  []Series `json:"series"`
	Layout  Layout   `json:"layout"`
	Queries []Query  `json:"queries"`
}

var (
	metricNames = []string{"cpu", "mem", "cpuload"}
	labelKeys   = []string{"env", "job", "zone", "name", "jobname"}
	labelVals   = []string{"a", "b", "ab", "ba", "c", "10", "2"}
	aggOps      = []string{"sum", "min", "max", "avg", "count"}
	binOps      = []string{"+", "-", "*", "/"}
	scalars     = []float64{2, 0.5, 10, 1, 3, 100, -1, 0.25}
)

type metricShape struct {
	name string
	keys []string
}

type genCtx struct {
	t      *rapid.T
	cs     *Case
	shapes []metricShape
	alpha  map[string][]string // label key -> value alphabet of this case
}

func pick[T any](t *rapid.T, label string, xs []T) T {
	return xs[rapid.IntRange(0, len(xs)-1).Draw(t, label)]
}

// chance is true with roughly pct percent. rapid draws small integers far more often than large
// ones (and shrinks towards them), so the rare outcome sits at the top of the range.
func chance(t *rapid.T, label string, pct int) bool {
	return rapid.IntRange(0, 99).Draw(t, label) >= 100-pct
}

func subset(t *rapid.T, label string, xs []string, lo, hi int) []string {
	if hi > len(xs) {
		hi = len(xs)
	}
	if lo > hi {
		lo = hi
	}
	k := rapid.IntRange(lo, hi).Draw(t, label+"N")
	perm := rapid.Permutation(append([]string(nil), xs...)).Draw(t, label)
	out := append([]string(nil), perm[:k]...)
	sort.Strings(out)
	return out
}

func genValue(t *rapid.T) float64 {
	switch pick(t, "valKind", []int{0, 1, 0, 2, 0, 1, 0, 0}) {
	case 1:
		return float64(rapid.IntRange(-400, 4000).Draw(t, "quarter")) / 4
	case 2:
		return 0
	default:
		return float64(rapid.IntRange(1, 50).Draw(t, "small"))
	}
}

func genCase(t *rapid.T) *Case {
	cs := &Case{}
	cs.Step = pick(t, "step", []uint32{10, 1, 5, 15, 30, 60})
	cs.N = pick(t, "n", []int{4, 3, 5, 2, 6})
	cs.T0 = cs.Step * (1_700_000_000/cs.Step + uint32(rapid.IntRange(0, 500).Draw(t, "t0off")))
	g := &genCtx{t: t, cs: cs, alpha: map[string][]string{}}

	for _, k := range labelKeys {
		g.alpha[k] = subset(t, "alpha_"+k, labelVals, pick(t, "alphaMin", []int{3, 2, 3}), 3)
	}
	nMetrics := pick(t, "nMetrics", []int{2, 1, 2, 3, 1, 2})
	names := rapid.Permutation(append([]string(nil), metricNames...)).Draw(t, "names")[:nMetrics]
	for i, name := range names {
		var keys []string
		if i > 0 && !chance(t, "otherKeys", 40) {
			keys = g.shapes[0].keys
		} else {
			keys = subset(t, "keys", labelKeys, pick(t, "minKeys", []int{2, 2, 1, 3}), 3)
		}
		g.shapes = append(g.shapes, metricShape{name: name, keys: keys})
	}
	hetero := chance(t, "hetero", 10)

	// layout first (series cuts depend on the number of batches)
	l := &cs.Layout
	l.GoMaxProcs = pick(t, "gomaxprocs", []int{0, 1, 0, 2, 4, 16})
	l.Batches = pick(t, "batches", []int{2, 1, 2, 3, 1, 2})
	for i := 0; i < l.Batches-1; i++ {
		l.After = append(l.After, pick(t, "after", []string{"segment", "block", "", "segment", "block", "restart"}))
	}
	l.Final = pick(t, "final", [][]string{{"segment"}, {"block"}, {"block", "segment"}, {"restart"}, {"segment", "restart"},
		{"block", "restart"}, {"segment"}, {"block"}})
	l.SeriesMajor = rapid.Bool().Draw(t, "seriesMajor")
	l.CutMode = pick(t, "cutMode", []string{"time", "series", "mixed"})
	timeCuts := g.genCuts("timeCuts")

	// series
	budget := pick(t, "nSeries", []int{9, 7, 12, 5, 10, 8, 4, 6, 11, 3, 2})
	if budget < len(g.shapes) {
		budget = len(g.shapes)
	}
	for mi, sh := range g.shapes {
		var combos [][]Label
		var rec func(i int, cur []Label)
		rec = func(i int, cur []Label) {
			if i == len(sh.keys) {
				combos = append(combos, append([]Label(nil), cur...))
				return
			}
			for _, v := range g.alpha[sh.keys[i]] {
				rec(i+1, append(cur, Label{K: sh.keys[i], V: v}))
			}
		}
		rec(0, nil)
		remainingMetrics := len(g.shapes) - mi - 1
		maxHere := budget - remainingMetrics
		if maxHere > len(combos) {
			maxHere = len(combos)
		}
		if maxHere > 8 {
			maxHere = 8
		}
		minHere := 1
		if mi == len(g.shapes)-1 && len(cs.Series) == 0 && maxHere >= 2 {
			minHere = 2
		}
		if mi == 0 && maxHere >= 2 {
			minHere = 2
		}
		if maxHere < minHere {
			maxHere = minHere
		}
		// the first metric takes most of the budget, the others a few series each
		cnt := maxHere
		if mi > 0 {
			cnt = pick(t, "cnt", []int{2, 1, 3, 4})
		} else if len(g.shapes) > 1 {
			cnt = maxHere - pick(t, "leave", []int{1, 0, 2, 3})*remainingMetrics
		}
		if cnt > maxHere {
			cnt = maxHere
		}
		if cnt < minHere {
			cnt = minHere
		}
		idx := make([]int, len(combos))
		for i := range idx {
			idx[i] = i
		}
		perm := rapid.Permutation(idx).Draw(t, "combos")
		seen := map[string]bool{}
		for _, ci := range perm {
			if cnt == 0 {
				break
			}
			labels := append([]Label(nil), combos[ci]...)
			if hetero && len(labels) > 1 && chance(t, "drop", 45) {
				d := rapid.IntRange(0, len(labels)-1).Draw(t, "dropIdx")
				labels = append(labels[:d:d], labels[d+1:]...)
			}
			lm := map[string]string{}
			for _, lb := range labels {
				lm[lb.K] = lb.V
			}
			if seen[labelKey(lm)] {
				continue
			}
			seen[labelKey(lm)] = true
			s := Series{Metric: sh.name, Labels: labels}
			if cs.N > 2 && chance(t, "lateStart", 12) {
				s.Start = rapid.IntRange(1, cs.N-1).Draw(t, "start")
			}
			base := genValue(t)
			kind := pick(t, "seriesKind", []int{2, 1, 2, 0})
			for i := 0; i < cs.N; i++ {
				switch kind {
				case 0:
					s.Vals = append(s.Vals, base)
				case 1:
					s.Vals = append(s.Vals, base+float64(i))
				default:
					s.Vals = append(s.Vals, genValue(t))
				}
			}
			switch l.CutMode {
			case "time":
				s.Cuts = timeCuts
			case "series":
				b := rapid.IntRange(0, l.Batches-1).Draw(t, "inBatch")
				for j := 0; j < l.Batches; j++ {
					if j < b {
						s.Cuts = append(s.Cuts, 0)
					} else {
						s.Cuts = append(s.Cuts, cs.N)
					}
				}
			default:
				s.Cuts = g.genCuts("cuts")
			}
			cs.Series = append(cs.Series, s)
			cnt--
			budget--
		}
	}

	// queries
	nq := rapid.IntRange(pt.Scale(4, 6), pt.Scale(7, 12)).Draw(t, "nQueries")
	// the first query is always a grouped aggregation over a filtered selector (the shape the
	// non-trivial rule asks for); the rest is drawn freely
	cs.Queries = append(cs.Queries, Query{Mode: "ref", E: g.genAgg(true)})
	for len(cs.Queries) < nq {
		cs.Queries = append(cs.Queries, g.genQuery())
	}
	return cs
}

func (g *genCtx) genCuts(label string) []int {
	b := g.cs.Layout.Batches
	cuts := make([]int, b)
	prev := 0
	for j := 0; j < b-1; j++ {
		c := rapid.IntRange(prev, g.cs.N).Draw(g.t, label)
		cuts[j] = c
		prev = c
	}
	cuts[b-1] = g.cs.N
	return cuts
}

func (g *genCtx) shape() metricShape { return pick(g.t, "metric", g.shapes) }

func (g *genCtx) foreignKey(sh metricShape) string {
	var other []string
	for _, k := range labelKeys {
		in := false
		for _, x := range sh.keys {
			if x == k {
				in = true
			}
		}
		if !in {
			other = append(other, k)
		}
	}
	other = append(other, "nosuch")
	return pick(g.t, "foreignKey", other)
}

func (g *genCtx) genRegex(key string) string {
	al := g.alpha[key]
	if len(al) == 0 {
		al = labelVals
	}
	v1, v2 := pick(g.t, "reV1", al), pick(g.t, "reV2", labelVals)
	switch rapid.IntRange(0, 6).Draw(g.t, "reKind") {
	case 0:
		return v1 + "|" + v2
	case 1:
		return v1[:1] + ".*"
	case 2:
		return ".*" + v1[len(v1)-1:]
	case 3:
		return ".+"
	case 4:
		return v1
	case 5:
		return "[" + v1[:1] + v2[:1] + "]+"
	default:
		return v1[:1] + ".?"
	}
}

func (g *genCtx) genSelector(sh metricShape, wantMatcher bool) *Expr {
	e := &Expr{Kind: "sel", Metric: sh.name}
	nm := pick(g.t, "nMatchers", []int{1, 0, 2, 1, 2, 0, 1, 3})
	if wantMatcher && nm == 0 {
		nm = 1
	}
	used := map[string]bool{}
	for i := 0; i < nm; i++ {
		var m Matcher
		if chance(g.t, "foreign", 6) {
			m.K = g.foreignKey(sh)
		} else {
			m.K = pick(g.t, "mKey", sh.keys)
			// a second matcher on the same label is legal PromQL but rare
			for try := 0; try < 3 && used[m.K] && !chance(g.t, "repeatKey", 10); try++ {
				m.K = pick(g.t, "mKey", sh.keys)
			}
		}
		used[m.K] = true
		m.Op = pick(g.t, "mOp", []string{"!=", "=", "=~", "!~", "=", "!=", "=~", "!~"})
		if m.Op == "=" || m.Op == "!=" {
			switch r := rapid.IntRange(0, 99).Draw(g.t, "mValKind"); {
			case r < 85 && len(g.alpha[m.K]) > 0:
				m.V = pick(g.t, "mVal", g.alpha[m.K])
			case r < 96:
				m.V = pick(g.t, "mValAny", labelVals)
			default:
				m.V = ""
			}
		} else {
			m.V = g.genRegex(m.K)
		}
		e.Matchers = append(e.Matchers, m)
	}
	return e
}

func (g *genCtx) genGrouping(sh metricShape, e *Expr, forceBy bool) {
	switch r := pick(g.t, "grouping", []string{"by", "without", "", "by", "by", "without", "", "by"}); {
	case forceBy:
		e.Grouping = "by"
	case r == "":
		return
	default:
		e.Grouping = r
	}
	e.Group = subset(g.t, "group", sh.keys, 1, 2)
	if !forceBy && chance(g.t, "foreignGroup", 6) {
		e.Group = append(e.Group, g.foreignKey(sh))
		sort.Strings(e.Group)
	}
}

func (g *genCtx) genAgg(designed bool) *Expr {
	if designed {
		return g.genDesignedAgg()
	}
	sh := g.shape()
	e := &Expr{Kind: "agg", Agg: pick(g.t, "agg", aggOps), Arg: g.genSelector(sh, false)}
	g.genGrouping(sh, e, false)
	return e
}

// genDesignedAgg: aggregation by one label of the first metric over a selector whose single
// matcher (on another label if there is one) excludes the series with one particular value.
func (g *genCtx) genDesignedAgg() *Expr {
	sh := g.shapes[0]
	gk := pick(g.t, "dGroupKey", sh.keys)
	mk := gk
	for _, k := range sh.keys {
		// filter on another label, preferably one with three values (two groups keep two members)
		if k != gk && (mk == gk || len(g.alpha[k]) > len(g.alpha[mk])) {
			mk = k
		}
	}
	v := pick(g.t, "dVal", g.alpha[mk])
	m := Matcher{K: mk, Op: "!=", V: v}
	if chance(g.t, "dRegex", 40) {
		m = Matcher{K: mk, Op: "!~", V: v + "|nomatch"}
	}
	return &Expr{Kind: "agg", Agg: pick(g.t, "agg", aggOps), Grouping: "by", Group: []string{gk},
		Arg: &Expr{Kind: "sel", Metric: sh.name, Matchers: []Matcher{m}}}
}

func (g *genCtx) genBin() *Expr {
	e := &Expr{Kind: "bin", Bin: pick(g.t, "bin", binOps)}
	num := &Expr{Kind: "num", Num: pick(g.t, "scalar", scalars)}
	switch pick(g.t, "binForm", []int{3, 5, 0, 3, 1, 5, 2}) {
	case 0:
		e.L, e.R = g.genSelector(g.shape(), false), num
	case 1:
		e.L, e.R = num, g.genSelector(g.shape(), false)
	case 2:
		e.L, e.R = g.genAgg(false), num
	case 3:
		// vector∘vector on selectors: same label keys on both sides make matches likely
		a := g.shape()
		b := g.shape()
		e.L, e.R = g.genSelector(a, false), g.genSelector(b, false)
	default:
		// aggregate∘aggregate with the same grouping clause
		l := g.genAgg(false)
		sh := g.shape()
		r := &Expr{Kind: "agg", Agg: pick(g.t, "agg2", aggOps), Arg: g.genSelector(sh, false),
			Grouping: l.Grouping, Group: l.Group}
		if rapid.Bool().Draw(g.t, "sameArg") {
			r.Arg = l.Arg
		}
		e.L, e.R = l, r
	}
	return e
}

func (g *genCtx) genLayoutOnly() Query {
	sh := g.shape()
	sel := g.genSelector(sh, false)
	w := g.cs.Step * uint32(rapid.IntRange(2, 4).Draw(g.t, "window"))
	switch rapid.IntRange(0, 5).Draw(g.t, "layoutKind") {
	case 0:
		return Query{Mode: "layout", E: &Expr{Kind: "raw", Text: fmt.Sprintf("rate(%s[%ds])", sel, w)}}
	case 1:
		k := pick(g.t, "rateBy", sh.keys)
		return Query{Mode: "layout", E: &Expr{Kind: "raw", Text: fmt.Sprintf("sum by (%s) (rate(%s[%ds]))", k, sel, w)}}
	case 2:
		f := pick(g.t, "overTime", []string{"avg_over_time", "max_over_time", "min_over_time", "sum_over_time", "count_over_time"})
		return Query{Mode: "layout", E: &Expr{Kind: "raw", Text: fmt.Sprintf("%s(%s[%ds])", f, sel, w)}}
	case 3:
		return Query{Mode: "layout", E: &Expr{Kind: "raw", Text: fmt.Sprintf("irate(%s[%ds])", sel, w)}}
	default:
		// an asserted query shape evaluated off the grid (coarser step): down-sampling policy applies
		q := g.genQuery()
		for q.Mode != "ref" {
			q = g.genQuery()
		}
		return Query{Mode: "layout", E: q.E, Step: g.cs.Step * uint32(rapid.IntRange(2, 3).Draw(g.t, "coarse"))}
	}
}

func (g *genCtx) genQuery() Query {
	switch pick(g.t, "queryKind", []int{1, 2, 0, 1, 2, 3, 1, 4, 0, 2, 1}) {
	case 0:
		return Query{Mode: "ref", E: g.genSelector(g.shape(), false)}
	case 1:
		return Query{Mode: "ref", E: g.genAgg(false)}
	case 2:
		return Query{Mode: "ref", E: g.genBin()}
	case 3:
		sh := g.shape()
		e := &Expr{Kind: "agg", Agg: "sum", Arg: g.genSelector(sh, false)}
		g.genGrouping(sh, e, false)
		return Query{Mode: "laws", E: e}
	default:
		return g.genLayoutOnly()
	}
}
