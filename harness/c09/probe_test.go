package c09

import (
	"encoding/json"
	"fmt"
	"os"
	"strings"
	"testing"

	"verifharness/pt"
	"verifharness/sut"
)

func TestProbe(t *testing.T) {
	if os.Getenv("C09_PROBE") == "" {
		t.Skip()
	}
	T0 := int64(1700000000)
	type pnt map[string]interface{}
	var pts []pnt
	series := []map[string]string{
		{"a": "x", "b": "p"}, {"a": "x", "b": "q"}, {"a": "y", "b": "p"}, {"a": "y", "b": "q"}, {"a": "z", "b": "p"},
	}
	for i := 0; i < 4; i++ {
		for si, s := range series {
			pts = append(pts, pnt{"metric": "m1", "tags": s, "timestamp": T0 + int64(i)*10, "value": float64(si+1)*10 + float64(i)})
		}
		pts = append(pts, pnt{"metric": "m2", "tags": map[string]string{"a": "x", "b": "p"}, "timestamp": T0 + int64(i)*10, "value": 2})
		pts = append(pts, pnt{"metric": "m2", "tags": map[string]string{"a": "y", "b": "q"}, "timestamp": T0 + int64(i)*10, "value": 4})
	}
	body, _ := json.Marshal(pts)
	queries := strings.Split(os.Getenv("C09_PROBE"), ";;")
	err := pt.WithWorker(sut.Options{Env: map[string]string{"VERIF_LOGLEVEL": os.Getenv("C09_LOG")}}, func(c *sut.Client) error {
		var pr putResult
		if err := c.Call(&sut.Req{Op: "c09_put", Body: body}, &pr); err != nil {
			return err
		}
		fmt.Printf("put: %+v\n", pr)
		run := func(stage string) {
			for _, q := range queries {
				var hr sut.HTTPResult
				err := c.Call(&sut.Req{Op: "c09_query", Args: map[string]string{"query": q, "start": fmt.Sprint(T0), "end": fmt.Sprint(T0 + 30), "step": "10"}}, &hr)
				fmt.Printf("[%s] %s => err=%v status=%d %s\n", stage, q, err, hr.Status, hr.Body)
			}
		}
		run("open")
		var n int
		for _, r := range strings.Split(os.Getenv("C09_ROT"), ",") {
			if r == "" {
				continue
			}
			if err := c.Call(&sut.Req{Op: "c09_rotate", Name: r}, &n); err != nil {
				return err
			}
			run(r)
		}
		if os.Getenv("C09_LOG") != "" {
			fmt.Println(c.LogTail(20000))
			fmt.Println(c.Stderr())
		}
		return nil
	})
	if err != nil {
		t.Fatal(err)
	}
}
