package c09

import (
	"encoding/json"
	"errors"
	"fmt"
	"math"
	"sort"
	"strconv"
	"strings"
	"testing"

	"verifharness/pt"
	"verifharness/sut"
)

// C09 — metric queries compute PromQL-consistent answers.

// ---- driving the worker -------------------------------------------------------------------------

type point struct {
	Metric    string            `json:"metric"`
	Tags      map[string]string `json:"tags"`
	Timestamp uint32            `json:"timestamp"`
	Value     float64           `json:"value"`
}

// batchBody builds the OTSDB put payload of ingest batch j.
func batchBody(cs *Case, j int) ([]byte, int) {
	var pts []point
	add := func(s *Series, i int) {
		tags := map[string]string{}
		for _, l := range s.Labels {
			tags[l.K] = l.V
		}
		pts = append(pts, point{Metric: s.Metric, Tags: tags, Timestamp: cs.T0 + uint32(i)*cs.Step, Value: s.Vals[i]})
	}
	in := func(s *Series, i int) bool {
		lo := 0
		if j > 0 {
			lo = s.Cuts[j-1]
		}
		return i >= lo && i < s.Cuts[j] && i >= s.Start
	}
	if cs.Layout.SeriesMajor {
		for si := range cs.Series {
			for i := 0; i < cs.N; i++ {
				if in(&cs.Series[si], i) {
					add(&cs.Series[si], i)
				}
			}
		}
	} else {
		for i := 0; i < cs.N; i++ {
			for si := range cs.Series {
				if in(&cs.Series[si], i) {
					add(&cs.Series[si], i)
				}
			}
		}
	}
	if len(pts) == 0 {
		return nil, 0
	}
	b, _ := json.Marshal(pts)
	return b, len(pts)
}

type promResp struct {
	Status string `json:"status"`
	Data   struct {
		ResultType string `json:"resultType"`
		Result     []struct {
			Metric map[string]string `json:"metric"`
			Values [][]interface{}   `json:"values"`
		} `json:"result"`
	} `json:"data"`
}

// runQuery sends one query_range request (start = T0, end = last grid point, given step).
func runQuery(c *sut.Client, cs *Case, text string, step uint32) (obsVec, error) {
	end := cs.T0 + uint32(cs.N-1)*cs.Step
	var hr sut.HTTPResult
	err := c.Call(&sut.Req{Op: "c09_query", Args: map[string]string{"query": text,
		"start": strconv.FormatUint(uint64(cs.T0), 10), "end": strconv.FormatUint(uint64(end), 10),
		"step": strconv.FormatUint(uint64(step), 10)}}, &hr)
	if err != nil {
		return nil, err
	}
	if hr.Status != 200 {
		return nil, &answerErr{fmt.Sprintf("HTTP %d: %s", hr.Status, trunc(string(hr.Body), 400))}
	}
	var pr promResp
	if err := json.Unmarshal(hr.Body, &pr); err != nil {
		return nil, &answerErr{fmt.Sprintf("answer is not JSON (%v): %s", err, trunc(string(hr.Body), 400))}
	}
	if pr.Status != "success" {
		return nil, &answerErr{fmt.Sprintf("status %q: %s", pr.Status, trunc(string(hr.Body), 400))}
	}
	out := obsVec{}
	for _, r := range pr.Data.Result {
		if len(r.Values) == 0 {
			continue // a series without samples is the same as no series
		}
		key := labelKey(r.Metric)
		if _, dup := out[key]; dup {
			return nil, &answerErr{fmt.Sprintf("two result series with the same label set {%s}: %s", key, trunc(string(hr.Body), 600))}
		}
		os := &obsSeries{Labels: r.Metric, Points: map[uint32]float64{}}
		for _, v := range r.Values {
			if len(v) != 2 {
				return nil, &answerErr{fmt.Sprintf("malformed sample %v", v)}
			}
			tf, ok1 := v[0].(float64)
			vs, ok2 := v[1].(string)
			if !ok1 || !ok2 {
				return nil, &answerErr{fmt.Sprintf("malformed sample %v", v)}
			}
			f, perr := strconv.ParseFloat(vs, 64)
			if perr != nil {
				return nil, &answerErr{fmt.Sprintf("sample value %q is not a number", vs)}
			}
			ts := uint32(tf)
			if _, dup := os.Points[ts]; dup {
				return nil, &answerErr{fmt.Sprintf("series {%s}: two samples at t=%d", key, ts)}
			}
			os.Points[ts] = f
		}
		out[key] = os
	}
	return out, nil
}

// answerErr: the server answered, but not with a usable result (a violation, not harness trouble).
type answerErr struct{ msg string }

func (e *answerErr) Error() string { return e.msg }

func trunc(s string, n int) string {
	if len(s) > n {
		return s[:n] + "…"
	}
	return s
}

// ---- laws ---------------------------------------------------------------------------------------

func allKeysOf(cs *Case, metric string) []string {
	set := map[string]bool{}
	for i := range cs.Series {
		if cs.Series[i].Metric == metric {
			for _, l := range cs.Series[i].Labels {
				set[l.K] = true
			}
		}
	}
	ks := make([]string, 0, len(set))
	for k := range set {
		ks = append(ks, k)
	}
	sort.Strings(ks)
	return ks
}

func withAgg(e *Expr, agg string) *Expr {
	c := *e
	c.Agg = agg
	return &c
}

// checkLaws runs the aggregation family of template e (an "agg" over a selector with some
// grouping) and checks, on the answers alone:
//
//	avg == sum / count, min <= avg <= max            per group and step
//	agg by (all label names) (S) == S                for agg in sum, min, max, avg
//	agg without (L) (S) == agg by (all \ L) (S)      if the template groups with without/by
func checkLaws(c *sut.Client, cs *Case, e *Expr, o *pt.Obs) error {
	res := map[string]obsVec{}
	for _, a := range aggOps {
		q := withAgg(e, a)
		v, err := runQuery(c, cs, q.String(), cs.Step)
		if err != nil {
			return wrapQ(q.String(), err)
		}
		res[a] = v
	}
	sum, cnt, avg, mn, mx := res["sum"], res["count"], res["avg"], res["min"], res["max"]
	qs := withAgg(e, "<agg>").String()
	for _, pair := range [][2]string{{"sum", "count"}, {"sum", "avg"}, {"sum", "min"}, {"sum", "max"}} {
		a, b := res[pair[0]], res[pair[1]]
		for k, sa := range a {
			sb := b[k]
			if sb == nil || len(sb.Points) != len(sa.Points) {
				return fmt.Errorf("law: %s and %s of `%s` do not cover the same groups/steps: group {%s}\n    %s:%s\n    %s:%s",
					pair[0], pair[1], qs, k, pair[0], fmtObsVec(a), pair[1], fmtObsVec(b))
			}
		}
		if len(a) != len(b) {
			return fmt.Errorf("law: %s and %s of `%s` return different groups\n    %s:%s\n    %s:%s", pair[0], pair[1], qs, pair[0], fmtObsVec(a), pair[1], fmtObsVec(b))
		}
	}
	for k, ss := range sum {
		for ts, sv := range ss.Points {
			cv, ok1 := cnt[k].Points[ts]
			av, ok2 := avg[k].Points[ts]
			lo, ok3 := mn[k].Points[ts]
			hi, ok4 := mx[k].Points[ts]
			if !ok1 || !ok2 || !ok3 || !ok4 {
				return fmt.Errorf("law: group {%s} of `%s` has no value at t=%d in one of count/avg/min/max", k, qs, ts)
			}
			if cv < 1 || cv != math.Trunc(cv) {
				return fmt.Errorf("law: count of group {%s} at t=%d is %s (`%s`)", k, ts, fmtNum(cv), qs)
			}
			scale := math.Max(math.Abs(lo), math.Abs(hi)) * cv
			if !closeEnough(av*cv, sv, scale) {
				return fmt.Errorf("law avg == sum/count broken for `%s`, group {%s}, t=%d: sum=%s count=%s avg=%s", qs, k, ts, fmtNum(sv), fmtNum(cv), fmtNum(av))
			}
			eps := 1e-9 * math.Max(math.Abs(lo), math.Abs(hi))
			if lo > av+eps || av > hi+eps {
				return fmt.Errorf("law min <= avg <= max broken for `%s`, group {%s}, t=%d: min=%s avg=%s max=%s", qs, k, ts, fmtNum(lo), fmtNum(av), fmtNum(hi))
			}
		}
	}
	o.Count("law_points", int64(len(sum)))

	// by (all labels) is the identity
	sel := e.Arg
	all := allKeysOf(cs, sel.Metric)
	if pt.KnownFindingOpen("C09-label-absent-from-series") {
		// the derived queries below name every label of the metric: when some series of the metric does
		// not carry one of them, they fall into the class of that open finding (the group of the series
		// without the label is lost) although the generated query itself did not
		for _, k := range all {
			if metricLacksLabel(cs, sel.Metric, k) {
				o.Known("C09-label-absent-from-series")
				return nil
			}
		}
	}
	if len(all) > 0 {
		ident, err := runQuery(c, cs, sel.String(), cs.Step)
		if err != nil {
			return wrapQ(sel.String(), err)
		}
		for _, a := range []string{"sum", "min", "max", "avg"} {
			q := &Expr{Kind: "agg", Agg: a, Grouping: "by", Group: all, Arg: sel}
			v, err := runQuery(c, cs, q.String(), cs.Step)
			if err != nil {
				return wrapQ(q.String(), err)
			}
			if err := sameObs(ident, v); err != nil {
				return fmt.Errorf("law by(all labels) == identity broken: `%s` vs `%s`: %v\n    selector:%s\n    aggregate:%s", sel, q, err, fmtObsVec(ident), fmtObsVec(v))
			}
		}
	}
	// without (L) == by (all \ L)
	if e.Grouping != "" {
		inGroup := map[string]bool{}
		for _, k := range e.Group {
			inGroup[k] = true
		}
		var compl []string
		for _, k := range all {
			if !inGroup[k] {
				compl = append(compl, k)
			}
		}
		other := "by"
		if e.Grouping == "by" {
			other = "without"
		}
		if len(compl) > 0 {
			for _, a := range aggOps {
				q := &Expr{Kind: "agg", Agg: a, Grouping: other, Group: compl, Arg: sel}
				v, err := runQuery(c, cs, q.String(), cs.Step)
				if err != nil {
					return wrapQ(q.String(), err)
				}
				if err := sameObs(res[a], v); err != nil {
					return fmt.Errorf("law without(L) == by(labels \\ L) broken: `%s` vs `%s`: %v\n    first:%s\n    second:%s", withAgg(e, a), q, err, fmtObsVec(res[a]), fmtObsVec(v))
				}
			}
		}
	}
	return nil
}

func wrapQ(q string, err error) error {
	var ae *answerErr
	if errors.As(err, &ae) {
		return fmt.Errorf("query `%s` was not answered: %v", q, err)
	}
	return err
}

// ---- known findings (exact input classes that are tolerated while the finding is open) ---------

// walkSelectors calls f for every selector of e.
func walkSelectors(e *Expr, f func(sel *Expr)) {
	if e == nil {
		return
	}
	if e.Kind == "sel" {
		f(e)
	}
	walkSelectors(e.Arg, f)
	walkSelectors(e.L, f)
	walkSelectors(e.R, f)
}

// metricLacksLabel: some series of the metric does not carry label k.
func metricLacksLabel(cs *Case, metric, k string) bool {
	for i := range cs.Series {
		if cs.Series[i].Metric == metric {
			if _, ok := cs.Series[i].label(k); !ok {
				return true
			}
		}
	}
	return false
}

// walkExprs calls f for every sub-expression of e.
func walkExprs(e *Expr, f func(x *Expr)) {
	if e == nil {
		return
	}
	f(e)
	walkExprs(e.Arg, f)
	walkExprs(e.L, f)
	walkExprs(e.R, f)
}

// knownClass returns the id of the open known finding whose input class the query falls into
// ("" if none). The query is then not evaluated at all.
func knownClass(cs *Case, q *Query) string {
	id := ""
	hit := func(k string) {
		if id == "" && pt.KnownFindingOpen(k) {
			id = k
		}
	}
	if q.E.Kind == "raw" {
		return ""
	}
	walkExprs(q.E, func(x *Expr) {
		switch x.Kind {
		case "sel":
			seen := map[string]bool{}
			for i := range x.Matchers {
				m := &x.Matchers[i]
				if seen[m.K] {
					// two matchers on one label name: only one of them is applied
					hit("C09-repeated-label-matcher")
				}
				seen[m.K] = true
				if metricLacksLabel(cs, x.Metric, m.K) {
					hit("C09-label-absent-from-series")
				}
			}
		case "agg":
			for _, k := range x.Group {
				if metricLacksLabel(cs, x.Arg.Metric, k) {
					hit("C09-label-absent-from-series")
				}
			}
		}
	})
	return id
}

// ---- the check ----------------------------------------------------------------------------------

type refResult struct {
	vec  rvec
	info evalInfo
}

func classify(cs *Case, o *pt.Obs, refs []*refResult) {
	l := cs.Layout
	o.Class("final_" + strings.Join(l.Final, "+"))
	if l.Batches > 1 {
		o.Class("batches_" + strconv.Itoa(l.Batches))
		o.Class("cut_" + l.CutMode)
		for _, a := range l.After {
			if a != "" {
				o.Class("split_by_" + a)
			}
		}
	}
	if l.GoMaxProcs > 0 {
		o.Class("gomaxprocs_" + strconv.Itoa(l.GoMaxProcs))
	}
	metrics := map[string]bool{}
	keysets := map[string]map[string]bool{}
	late := false
	for i := range cs.Series {
		s := &cs.Series[i]
		metrics[s.Metric] = true
		ks := []string{}
		for _, lb := range s.Labels {
			ks = append(ks, lb.K)
		}
		if keysets[s.Metric] == nil {
			keysets[s.Metric] = map[string]bool{}
		}
		keysets[s.Metric][strings.Join(ks, ",")] = true
		if s.Start > 0 {
			late = true
		}
	}
	o.Class("metrics_" + strconv.Itoa(len(metrics)))
	for _, ks := range keysets {
		if len(ks) > 1 {
			o.Class("hetero_label_names")
			break
		}
	}
	if late {
		o.Class("late_start_series")
	}
	o.Max("series", int64(len(cs.Series)))
	nontrivial := false
	for qi, q := range cs.Queries {
		o.Class("mode_" + q.Mode)
		var visit func(e *Expr)
		visit = func(e *Expr) {
			if e == nil {
				return
			}
			switch e.Kind {
			case "sel":
				o.Class("matchers_" + strconv.Itoa(len(e.Matchers)))
				for _, m := range e.Matchers {
					o.Class("matcher_" + m.Op)
				}
			case "agg":
				o.Class("agg_" + e.Agg)
				if e.Grouping == "" {
					o.Class("agg_nogroup")
				} else {
					o.Class("agg_" + e.Grouping)
				}
			case "bin":
				lk, rk := e.L.Kind, e.R.Kind
				if lk == "num" || rk == "num" {
					o.Class("bin_vector_scalar")
				} else {
					o.Class("bin_vector_vector_" + lk)
				}
				o.Class("bin_" + e.Bin)
			case "raw":
				o.Class("range_function")
			}
			visit(e.Arg)
			visit(e.L)
			visit(e.R)
		}
		visit(q.E)
		if q.Mode == "layout" && q.Step != 0 {
			o.Class("offgrid_step")
		}
		if r := refs[qi]; r != nil {
			if len(r.vec) == 0 {
				o.Class("empty_expected")
			}
			if r.info.excluded > 0 {
				o.Class("matcher_excludes_series")
			}
			if r.info.bigGroups >= 2 {
				o.Class("two_groups_with_two_members")
			}
			if r.info.divZero {
				o.Class("division_by_zero_dontcare")
			}
			if q.E.Kind == "bin" && q.E.L.Kind != "num" && q.E.R.Kind != "num" && len(r.vec) > 0 {
				o.Class("vector_vector_nonempty")
			}
			if r.info.bigGroups >= 2 && r.info.excluded >= 1 {
				nontrivial = true
			}
		}
	}
	if nontrivial {
		o.NonTrivial()
	}
}

func applyAction(cl **sut.Client, dataDir string, cs *Case, action string) error {
	c := *cl
	switch action {
	case "":
		return nil
	case "block", "segment":
		var n int
		return c.Call(&sut.Req{Op: "c09_rotate", Name: action}, &n)
	case "restart":
		var n int
		if err := c.Call(&sut.Req{Op: "c09_rotate", Name: "shutdown"}, &n); err != nil {
			return err
		}
		c.Close()
		nc, err := startWorker(dataDir, cs)
		if err != nil {
			return err
		}
		*cl = nc
		return nil
	}
	return fmt.Errorf("unknown action %q", action)
}

func startWorker(dataDir string, cs *Case) (*sut.Client, error) {
	c, err := sut.Start(sut.Options{DataDir: dataDir, Env: map[string]string{"VERIF_LOGLEVEL": "error"}})
	if err != nil {
		return nil, pt.Inconclusivef("worker start: %v", err)
	}
	if cs.Layout.GoMaxProcs > 0 {
		if err := c.Set("gomaxprocs", int64(cs.Layout.GoMaxProcs)); err != nil {
			c.Close()
			return nil, err
		}
	}
	return c, nil
}

func checkC09(cs *Case, o *pt.Obs) (err error) {
	if cs.N < 1 || cs.Step == 0 || cs.T0%cs.Step != 0 || len(cs.Series) == 0 {
		return pt.Inconclusivef("malformed case")
	}
	// reference answers
	refs := make([]*refResult, len(cs.Queries))
	skip := make([]bool, len(cs.Queries))
	for i := range cs.Queries {
		if id := knownClass(cs, &cs.Queries[i]); id != "" {
			o.Known(id)
			skip[i] = true
		}
	}
	for i, q := range cs.Queries {
		if q.Mode != "ref" || skip[i] {
			continue
		}
		r := &refResult{}
		vec, _, sc, rerr := refEval(cs, q.E, &r.info)
		if rerr != nil || sc {
			return pt.Inconclusivef("reference cannot evaluate `%s`: %v", q.E, rerr)
		}
		r.vec = vec
		refs[i] = r
	}
	classify(cs, o, refs)

	dataDir := pt.NewDataDir()
	defer pt.CleanupDataDir(dataDir)
	c, err := startWorker(dataDir, cs)
	if err != nil {
		return err
	}
	defer func() { c.Close() }()
	defer func() {
		// harness/worker trouble vs. observations
		if err == nil {
			return
		}
		var inc *pt.Inconclusive
		if errors.As(err, &inc) {
			err = inc // the runner recognises the unwrapped type only
			return
		}
		var oe *sut.OpError
		if errors.Is(err, sut.ErrWorkerDied) {
			err = fmt.Errorf("server process died: %s", pt.CrashDetail(c))
		} else if errors.Is(err, sut.ErrTimeout) {
			err = pt.Inconclusivef("worker command timed out")
		} else if errors.As(err, &oe) && !strings.HasPrefix(oe.Msg, "PANIC") {
			// put/rotate/set could not be carried out (I/O trouble etc.): nothing was observed about queries
			err = pt.Inconclusivef("worker operation failed: %v", err)
		}
	}()

	for j := 0; j < cs.Layout.Batches; j++ {
		body, n := batchBody(cs, j)
		if n > 0 {
			var pr putResult
			if err := c.Call(&sut.Req{Op: "c09_put", Body: body}, &pr); err != nil {
				return err
			}
			if pr.Err != "" || pr.Failed != 0 || pr.Success != uint64(n) {
				return fmt.Errorf("ingest batch %d: %d valid datapoints sent, answer success=%d failed=%d err=%q", j, n, pr.Success, pr.Failed, pr.Err)
			}
			o.Count("datapoints", int64(n))
		}
		if j < cs.Layout.Batches-1 {
			if err := applyAction(&c, dataDir, cs, cs.Layout.After[j]); err != nil {
				return fmt.Errorf("%s after batch %d: %w", cs.Layout.After[j], j, err)
			}
		}
	}

	var first []obsVec
	checkpoint := func(stage string) error {
		cur := make([]obsVec, len(cs.Queries))
		for qi, q := range cs.Queries {
			if skip[qi] {
				continue
			}
			text := q.E.String()
			switch q.Mode {
			case "laws":
				if err := checkLaws(c, cs, q.E, o); err != nil {
					return fmt.Errorf("[%s] %w", stage, err)
				}
				continue
			}
			step := cs.Step
			if q.Step != 0 {
				step = q.Step
			}
			got, err := runQuery(c, cs, text, step)
			if err != nil {
				return fmt.Errorf("[%s] %w", stage, wrapQ(text, err))
			}
			o.Count("queries", 1)
			cur[qi] = got
			if q.Mode == "ref" {
				if err := compareWithRef(cs, got, refs[qi].vec); err != nil {
					return fmt.Errorf("[%s] `%s`: %v\n    answer:%s\n    data: %s", stage, text, err, fmtObsVec(got), describeData(cs))
				}
			}
			if first != nil {
				if err := sameObs(first[qi], got); err != nil {
					return fmt.Errorf("[%s] `%s` (step %ds) changed its answer after a storage transition (%s): %v\n    before:%s\n    now:%s\n    data: %s",
						stage, text, step, strings.Join(cs.Layout.Final, ","), err, fmtObsVec(first[qi]), fmtObsVec(got), describeData(cs))
				}
			}
		}
		if first == nil {
			first = cur
		}
		return nil
	}
	if err := checkpoint("as ingested"); err != nil {
		return err
	}
	for i, a := range cs.Layout.Final {
		if err := applyAction(&c, dataDir, cs, a); err != nil {
			return fmt.Errorf("final action %s: %w", a, err)
		}
		if err := checkpoint(fmt.Sprintf("after %s", strings.Join(cs.Layout.Final[:i+1], "+"))); err != nil {
			return err
		}
	}
	return nil
}

func describeData(cs *Case) string {
	var sb strings.Builder
	fmt.Fprintf(&sb, "grid t0=%d step=%ds n=%d;", cs.T0, cs.Step, cs.N)
	for i := range cs.Series {
		s := &cs.Series[i]
		lm := map[string]string{}
		for _, l := range s.Labels {
			lm[l.K] = l.V
		}
		fmt.Fprintf(&sb, " %s{%s}", s.Metric, labelKey(lm))
		if s.Start > 0 {
			fmt.Fprintf(&sb, "@%d", s.Start)
		}
		fmt.Fprintf(&sb, "=%v cuts=%v;", s.Vals, s.Cuts)
	}
	return trunc(sb.String(), 1500)
}

func TestC09(t *testing.T) { pt.RunProp(t, "C09", genCase, checkC09) }
