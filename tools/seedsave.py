#!/usr/bin/env python3
"""usage: seedsave.py <mutout-dir> <seed-id> <detected-by csv or ''> <notes>"""
import json, os, shutil, sys
out, sid, det, notes = sys.argv[1:5]
dst = os.path.join("/verif/seeded", sid)
shutil.rmtree(dst, ignore_errors=True)
os.makedirs(dst)
shutil.copy(os.path.join(out, "patch.diff"), dst)
shutil.copytree(os.path.join(out, "demo"), os.path.join(dst, "demo"))
m = json.load(open(os.path.join(out, "meta.json")))
meta = {"property": m.get("property"), "summary": m.get("summary"), "needs": m.get("needs"),
        "author": "independent sub-agent (saw only the property text and a scratch worktree)",
        "confirmed": "coordinator re-ran in a scratch worktree (tools/seedcheck.sh): demo passes on HEAD, fails with the change; tests of the touched packages pass with the change; sub-agent reports the whole suite passes",
        "agent_commands": m.get("commands_run"),
        "detected_by": [d for d in det.split(",") if d], "notes": notes}
json.dump(meta, open(os.path.join(dst, "meta.json"), "w"), indent=1)
print("saved", dst)
