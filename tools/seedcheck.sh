#!/bin/bash
# usage: tools/seedcheck.sh <mutout-dir> <demo-dest-relative-dir> <demo-test-cmd> -- <check ids...>
# Confirms a seeded change in a scratch worktree (demo passes on HEAD, fails with the patch, touched packages' tests pass)
# and runs the given checks against the changed tree. Nothing in /repo is touched.
out=$1; dest=$2; cmd=$3; shift 4
name=$(basename $out)
wt=/tmp/sd-$name
export GOFLAGS=-mod=mod GOPROXY=off GOSUMDB=off GOTOOLCHAIN=local
git -C /repo worktree remove --force $wt >/dev/null 2>&1
git -C /repo worktree add --detach $wt HEAD >/dev/null 2>&1 || exit 3
mkdir -p $wt/$dest && cp -r $out/demo/* $wt/$dest/ && rm -f $wt/$dest/README*
( cd $wt && eval "$cmd" > /tmp/sd-$name-base.log 2>&1 ); base=$?
( cd $wt && git apply $out/patch.diff ) || { echo "PATCH DOES NOT APPLY"; git -C /repo worktree remove --force $wt; exit 3; }
( cd $wt && go build ./... ) || { echo "DOES NOT BUILD"; git -C /repo worktree remove --force $wt; exit 3; }
( cd $wt && eval "$cmd" > /tmp/sd-$name-mut.log 2>&1 ); mut=$?
for f in $(ls $out/demo); do rm -rf $wt/$dest/$f; done   # the demonstration is not part of the change under test
pkgs=$(cd $wt && git diff --name-only | grep '\.go$' | xargs -n1 dirname | sort -u | sed 's|^|./|' | tr '\n' ' ')
( cd $wt && go test -vet=off -count=1 -p 4 $pkgs > /tmp/sd-$name-pkgtests.log 2>&1 ); pk=$?
echo "SEED $name: demo on HEAD exit=$base (want 0), demo with change exit=$mut (want !=0), tests of touched packages [$pkgs] exit=$pk (want 0)"
for id in "$@"; do
  o=$(cd /verif && VERIF_REPO=$wt ./check $id quick 2>&1); code=$?
  echo "SEED $name check $id exit=$code violations=$(echo "$o" | grep -c '^VIOLATION'); $(echo "$o" | grep '^\[check\] C' | tail -1)"
  echo "$o" | grep -m1 -A2 "failure confirmed" | cut -c1-500
done
git -C /repo worktree remove --force $wt
