#!/opt/veriftools/pyvenv/bin/python
import json, jsonschema, glob, sys
jsonschema.validate(json.load(open('/verif/MANIFEST.json')), json.load(open('/root/.vp/MANIFEST.schema.json')))
sch = json.load(open('/root/.vp/EVIDENCE.schema.json'))
bad = 0
for f in sorted(glob.glob('/verif/evidence/*.json')):
    try:
        jsonschema.validate(json.load(open(f)), sch)
    except Exception as e:
        bad += 1
        print("INVALID", f, str(e)[:300])
print('manifest ok; evidence files:', len(glob.glob('/verif/evidence/*.json')), 'invalid:', bad)
