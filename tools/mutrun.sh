#!/bin/bash
# usage: tools/mutrun.sh <name> <file> <python-replace-old> <python-replace-new> <check ids...>
# applies a textual mutation in a scratch worktree (outside /repo and /verif) and runs the given checks against it
name=$1; file=$2; old=$3; new=$4; shift 4
wt=/tmp/mt-$name
git -C /repo worktree remove --force $wt >/dev/null 2>&1
git -C /repo worktree add --detach $wt HEAD >/dev/null 2>&1 || exit 3
python3 - "$wt/$file" "$old" "$new" <<'PY' || { git -C /repo worktree remove --force $wt; exit 3; }
import sys
p,old,new=sys.argv[1:4]
s=open(p).read()
if old not in s:
    print("MUTATION SITE NOT FOUND"); sys.exit(1)
open(p,'w').write(s.replace(old,new,1))
PY
( cd $wt && GOFLAGS=-mod=mod GOPROXY=off GOSUMDB=off GOTOOLCHAIN=local go build ./pkg/... ) || { echo "MUTANT DOES NOT BUILD"; git -C /repo worktree remove --force $wt; exit 3; }
for id in "$@"; do
  out=$(cd /verif && VERIF_REPO=$wt ./check $id quick 2>&1)
  code=$?
  echo "MUTANT $name check $id exit=$code $(echo "$out" | grep -c '^VIOLATION') violations; $(echo "$out" | grep '^\[check\] C' | tail -1)"
  echo "$out" | grep -m1 -A3 "failure confirmed" | cut -c1-400
done
git -C /repo worktree remove --force $wt
