#!/bin/bash
# usage: tools/seedall.sh [ids...]  — re-runs, for every seeded change kept under /verif/seeded, the checks recorded as
# detecting it (meta.json detected_by) against a scratch worktree of /repo HEAD with the change applied.
# Prints one line per (change, check). Nothing in /repo is touched.
export GOFLAGS=-mod=mod GOPROXY=off GOSUMDB=off GOTOOLCHAIN=local
cd /verif
ids="$@"; [ -z "$ids" ] && ids=$(ls seeded)
for id in $ids; do
  d=/verif/seeded/$id; wt=/tmp/sa-$id
  git -C /repo worktree remove --force $wt >/dev/null 2>&1
  git -C /repo worktree add --detach $wt HEAD >/dev/null 2>&1 || { echo "SEEDALL $id worktree failed"; continue; }
  if ! ( cd $wt && git apply $d/patch.diff ) 2>/dev/null; then
    if ! ( cd $wt && git apply -3 $d/patch.diff ) >/dev/null 2>&1; then echo "SEEDALL $id PATCH NO LONGER APPLIES to HEAD"; git -C /repo worktree remove --force $wt; continue; fi
  fi
  if ! ( cd $wt && go build ./... ) >/dev/null 2>&1; then echo "SEEDALL $id DOES NOT BUILD"; git -C /repo worktree remove --force $wt; continue; fi
  for chk in $(python3 -c "import json;print(' '.join(json.load(open('$d/meta.json'))['detected_by']))"); do
    o=$(VERIF_REPO=$wt ./check $chk quick 2>&1); code=$?
    echo "SEEDALL $id check $chk exit=$code violations=$(echo "$o" | grep -c '^VIOLATION') $(echo "$o" | grep '^\[check\] C' | tail -1 | cut -c1-110)"
  done
  git -C /repo worktree remove --force $wt
done
