#!/usr/bin/env python3
"""Regenerates MANIFEST.json from checks.json (+ not_applicable.json for unclaimed properties)."""
import json, os
ROOT = os.path.dirname(os.path.dirname(os.path.abspath(__file__)))
cfg = json.load(open(os.path.join(ROOT, "checks.json")))
import glob
for frag in sorted(glob.glob(os.path.join(ROOT, "checks.d", "*.json"))):
    cfg["checks"].update(json.load(open(frag)))
props = [json.loads(l) for l in open(os.path.join(ROOT, "properties.jsonl")) if l.strip()]
na_path = os.path.join(ROOT, "not_applicable.json")
na_reasons = json.load(open(na_path)) if os.path.exists(na_path) else {}
baseline = json.load(open("/root/.vp/BASELINE.json"))["cmd"] if os.path.exists("/root/.vp/BASELINE.json") else ""
hooks_path = os.path.join(ROOT, "hooks.json")
hooks = json.load(open(hooks_path)) if os.path.exists(hooks_path) else {"source_commits": []}
claimed_path = os.path.join(ROOT, 'claimed.json')
claimed = set(json.load(open(claimed_path))) if os.path.exists(claimed_path) else None
if claimed is not None:
    cfg['checks'] = {k: v for k, v in cfg['checks'].items() if k in claimed}
checks = []
for p in props:
    pid = p["id"]
    if pid not in cfg["checks"]:
        continue
    c = cfg["checks"][pid]
    entry = {
        "property_id": pid,
        "quick_cmd": "./check %s quick" % pid,
        "thorough_cmd": "./check %s thorough" % pid,
        "evidence_file": "/verif/evidence/%s.json" % pid,
        "replay_cmd_template": "./check %s --replay {path}" % pid,
        "engine": "rapid-harness",
        "level_claimed": {"category": c.get("level", "exploration"), "text": c.get("text", ""), "design_ref": c.get("design_ref", "")},
        "level_note": c.get("level_note", ""),
        "technique": c.get("technique", "property-based testing (rapid)"),
    }
    checks.append(entry)
na = []
for p in props:
    if p["id"] not in cfg["checks"]:
        na.append({"property_id": p["id"], "reason": na_reasons.get(p["id"], "check not built yet in this session; see DESIGN.md §4 for the intended generated-search check")})
man = {
    "version": 1,
    "setup_cmd": "cd /verif && ./setup.sh",
    "hooks": {
        "guard": "verif",
        "enable": "no guarded code in /repo is required: instrumentation is injected at check time with `go test -overlay` generated from the current /repo tree (harness/overlay); harness-side helpers are selected with -tags verif",
        "baseline_off_cmd": baseline,
        "source_commits": hooks.get("source_commits", []),
        "add_only": True,
    },
    "engines": [{"name": "rapid-harness", "path": "/verif/harness", "serves_properties": [c["property_id"] for c in checks],
                 "kind_free_text": "Go module: pgregory.net/rapid v1.3.0 generators + reference models + siglens run in a child worker process; driver /verif/check shards, confirms failures from replay files and writes evidence"}],
    "checks": checks,
    "notes": "All checks rebuild the harness against /repo's working tree on every invocation. Exit 2 = inconclusive (build failure, a shard without verdict, fewer than half of the requested cases decided; never a violation). A failure that does not come back when its replay file is re-executed counts as a violation only if its message carries a crash trace or a race report of the server process; otherwise it is logged as UNCONFIRMED and listed in the evidence file (unconfirmed_failures). Open findings of known_findings.jsonl are printed as KNOWN-FINDING lines.",
    "not_applicable": na,
}
json.dump(man, open(os.path.join(ROOT, "MANIFEST.json"), "w"), indent=1)
print("claimed:", [c["property_id"] for c in checks], "not claimed:", [n["property_id"] for n in na])
