#!/usr/bin/env python3
"""Prints the prompt for a seeded-change sub-agent for one property (only the property text, nothing from /verif)."""
import json, sys
pid = sys.argv[1]
variant = sys.argv[2] if len(sys.argv) > 2 else "a"
avoid = sys.argv[3] if len(sys.argv) > 3 else ""
props = {json.loads(l)["id"]: json.loads(l) for l in open("/verif/properties.jsonl") if l.strip()}
p = props[pid]
wt = "/tmp/mut-%s%s" % (pid, variant)
out = "/tmp/mutout-%s%s" % (pid, variant)
print(f"""You are helping to evaluate a test suite. The repository siglens/siglens (a Go observability database) is checked out at /repo (do NOT modify /repo itself and do NOT read anything under /verif). Create your own scratch git worktree and work only there:

    git -C /repo worktree add --detach {wt} HEAD
    cd {wt}
    export GOFLAGS=-mod=mod GOPROXY=off GOSUMDB=off GOTOOLCHAIN=local   # no network is available

Here is a semantic property that siglens is supposed to satisfy:

  Title: {p['title']}
  Statement: {p['statement']}
  It must hold: {p['quantifier']['text']}

Your task: make ONE realistic change to the siglens source code (in your worktree) that BREAKS this property, the kind of regression a developer could plausibly introduce (an optimisation that skips a step, a wrong boundary, a missing lock, a reordered write, a lost field, a cache not invalidated ...), such that
  1. the repository still compiles (`go build ./...`) and its existing test suite still passes: at least `go test -vet=off -count=1 ./pkg/...` for every package you touched and the packages that import them; preferably the whole suite (`go test -vet=off -count=1 ./...`, about 2-5 minutes);
  2. the breakage needs something specific to manifest — a particular interleaving, a crash or fault at a particular point, a multi-step sequence of operations, an unusual input, or two cooperating sites that each look fine alone — NOT something that any ordinary use would expose at once (so not "return nothing from every search");
  3. you provide a demonstration: a Go test file (or small program) placed inside the worktree that FAILS with your change and PASSES without it (on the unmodified HEAD). It should exercise siglens through its real code paths (ingest / flush / rotate / query APIs, handlers, codecs ...), not just call the one function you edited with a hand-made argument if you can avoid it.

Variant hint for diversity: this is variant "{variant}" — {"prefer a change in the write/ingest/persistence side" if variant == "a" else "prefer a change in the read/query/recovery side or in a rarely taken branch"}.{(" Other people already produced changes in these places, so choose a different one: " + avoid + ".") if avoid else ""}

Deliver into the directory {out}/ (create it):
  - patch.diff   : `git diff` of your source change only (without the demonstration), applicable to /repo HEAD with `git apply`
  - demo/        : the demonstration file(s) and a README line saying where in the repo they go and the exact command to run them
  - meta.json    : {{"property": "{pid}", "summary": "...what the change does...", "needs": "...what is needed for it to manifest...", "commands_run": ["..."], "suite_passes_with_change": true/false, "demo_fails_with_change": true/false, "demo_passes_without_change": true/false}}
Verify all three facts yourself (run the commands) before finishing, and state the results in meta.json honestly. Never use `git stash` (the stash is shared by all worktrees of /repo and other people work in theirs): to test on the unmodified tree use `git diff > /tmp/x.diff; git apply -R /tmp/x.diff; ...; git apply /tmp/x.diff`. Leave the worktree in place (the coordinator removes it). Your final message should summarise the change in 5-10 lines.""")
