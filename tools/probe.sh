#!/bin/sh
# usage: PROBE_BODY='json lines' PROBE_Q='q1;;q2' tools/probe.sh
export GOFLAGS=-mod=mod GOPROXY=off GOSUMDB=off GOTOOLCHAIN=local
cd /verif/harness && go test -c -vet=off -o /verif/.work/probe.test ./probe && cd /verif/.work && ./probe.test -test.run TestProbe 2>&1 | grep -v "level=info"
