#!/usr/bin/env python3
import json,sys
d=json.load(open(sys.argv[1])); c=d['case']
print("MSG:",d['msg'][:600])
def tojson(n):
    if 'leaf' in n:
        l=n['leaf']; k=l.get('k',0)
        if k==0: return None
        if k==1: return l.get('i',0)
        if k==2: return l.get('sp') or l.get('f',0.0)
        if k==3: return l.get('s','')
        if k==4: return l.get('b',False)
    if n.get('isArr') or 'arr' in n: return [tojson(e) for e in n.get('arr',[])]
    return {f['n']:tojson(f['v']) for f in n.get('obj',[])}
ds=c.get('ds') or c
for col in ds.get('columns',[]): print("COL",'.'.join(col['Path']),"profile",col['Profile'],"presence",col['Presence'],col['K'],col['L'])
print("LAYOUT",c.get('layout'))
for e in ds['events']: print(e['vid'],e['ts'],json.dumps(tojson(e['doc']),ensure_ascii=False))
for q in c.get('queries',[]): print("Q",json.dumps(q)[:300])
